"""C09: shape of the fiber switch, read from the CURRENT sources at token level -> coq/gen/FiberArms.v.

  vm.rs   fn load_fiber    the error checks before the switch, in source order, with their messages;
                           `self.pop()` of the argument under `if arg.is_some()`;
                           the non-new branch: does a fiber resumed WITHOUT an argument get nil poked into its
                           pending-yield slot?   (poke_nil_on_resume)
                             true :  else { self.poke(0, arg.unwrap_or_default()) }      | .unwrap_or(Value::None)
                                     else if let Some(a) = arg { poke(0, a) } else { poke(0, Value::None) }
                                     else { match arg { Some(a) => poke(0, a), None => poke(0, Value::None) } }
                             false:  else if let Some(arg) = arg { self.poke(0, arg) }   (nothing for None)
          fn unload_fiber  pops the argument, clears `caller`, pokes depth 0, message of the `caller == None` error
          fn return_impl   `self.unload_fiber(None)?; self.poke(0, result);`
  core.rs fn fiber_call    `if is_new { check_num_args(num_args, arity - 1)?; } else { if num_args > 1 { ... } }`

Renaming variables or re-formatting keeps the output; dropping a check, a pop, the `caller = None`, or changing a
poke depth changes a constant that props/C09.v compares with what YV.Fibers hard-wires."""
import os
import sys

sys.path.insert(0, os.path.dirname(os.path.abspath(__file__)))
from rustlex import lex, match_group, find_seq, find_all_seq, body_after, text_of  # noqa

REPO = os.environ.get("VERIF_REPO", "/repo")
SRC = os.path.join(REPO, "yarel", "src")


def toks_of(name):
    with open(os.path.join(SRC, name)) as fh:
        return lex(fh.read())


def fn_body(toks, name):
    i = find_seq(toks, ["fn", name])
    if i < 0:
        raise ValueError("fn %s not found" % name)
    return body_after(toks, i)


def texts(toks, lo, hi):
    return [t.text for t in toks[lo:hi]]


def has(seq, sub):
    k = len(sub)
    return any(seq[i:i + k] == sub for i in range(len(seq) - k + 1))


def pokes(toks, lo, hi):
    """[(depth literal, [arg tokens])] of the `.poke(d, x)` calls in toks[lo:hi]"""
    res = []
    for j in find_all_seq(toks, ["poke", "("], lo, hi):
        e = match_group(toks, j + 1)
        res.append((toks[j + 2].text, texts(toks, j + 4, e)))
    return res


def err_returns(toks, lo, hi):
    """[(kind, message)] of `return Err(error!(ErrorKind::K, "msg" ...))` in toks[lo:hi]"""
    res = []
    for j in find_all_seq(toks, ["error!", "("], lo, hi):
        e = match_group(toks, j + 1)
        kind = None
        k = find_seq(toks, ["ErrorKind", "::"], j, e)
        if k >= 0:
            kind = toks[k + 2].text
        lit = next((t.text for t in toks[j + 2:e] if t.kind == "str"), None)
        res.append((kind, lit))
    return res


def nil_expr(ts):
    return ts == ["Value", "::", "None"] or ts[-4:] == [".", "unwrap_or_default", "(", ")"] or \
        (len(ts) >= 7 and ts[-7:] == [".", "unwrap_or", "(", "Value", "::", "None", ")"])


def load_fiber_shape(toks):
    o, c = fn_body(toks, "load_fiber")
    # --- the checks: every `if <cond> { return Err(...) }` before the first assignment of the active fiber
    stop = find_seq(toks, ["replace", "("], o, c)
    if stop < 0:
        raise ValueError("load_fiber: `self.fiber.replace(` not found")
    checks = []
    j = o
    while True:
        j = find_seq(toks, ["if"], j + 1, stop)
        if j < 0:
            break
        bo, bc = body_after(toks, j)
        if bo > stop:
            break
        cond = texts(toks, j + 1, bo)
        errs = err_returns(toks, bo, bc)
        if not errs or not has(texts(toks, bo, bc), ["return", "Err"]):
            continue
        if has(cond, ["has_finished", "(", ")"]) and "!" not in cond:
            checks.append(("CkFinished", errs[0]))
        elif has(cond, ["caller", ".", "is_some", "(", ")"]) and "!" not in cond:
            checks.append(("CkCaller", errs[0]))
        else:
            checks.append(("CkUnknown", errs[0]))
        j = bc
    # --- popping the argument off the caller's stack
    pops = False
    for j in find_all_seq(toks, ["if", "arg", ".", "is_some", "(", ")"], o, c):
        bo, bc = body_after(toks, j)
        if has(texts(toks, bo, bc), ["self", ".", "pop", "(", ")"]):
            pops = True
    # --- the new / resumed branch
    k = find_seq(toks, ["is_new", "(", ")"], stop, c)
    if k < 0:
        raise ValueError("load_fiber: is_new() branch not found")
    j = k
    while toks[j].text != "if":
        j -= 1
    bo, bc = body_after(toks, j)
    then_txt = texts(toks, bo, bc)
    pushes_closure = has(then_txt, ["push", "(", "Value", "::", "ObjClosure"])
    pushes_arg = has(then_txt, ["self", ".", "push", "(", "arg", ")"])
    if toks[bc + 1].text != "else":
        raise ValueError("load_fiber: no else branch for a resumed fiber")
    depths = []
    if toks[bc + 2].text == "{":
        eo, ec = bc + 2, match_group(toks, bc + 2)
        ps = pokes(toks, eo, ec)
        depths = [d for d, _ in ps]
        inner = texts(toks, eo + 1, ec)
        if len(ps) == 1 and nil_expr(ps[0][1]) and "if" not in inner and "match" not in inner:
            poke_nil = True          # poke(0, arg.unwrap_or_default())
        elif "match" in inner and len(ps) == 2 and any(nil_expr(a) for _, a in ps) and has(inner, ["None", "=>"]):
            poke_nil = True
        elif inner[:2] == ["if", "let"] and len(ps) == 2 and any(nil_expr(a) for _, a in ps) and "else" in inner:
            poke_nil = True
        elif inner[:2] == ["if", "let"] and len(ps) == 1 and "else" not in inner:
            poke_nil = False
        else:
            raise ValueError("load_fiber: unrecognised else branch: " + " ".join(inner)[:200])
    elif texts(toks, bc + 2, bc + 6)[:4] == ["if", "let", "Some", "("]:
        eo, ec = body_after(toks, bc + 2)
        ps = pokes(toks, eo, ec)
        if len(ps) != 1 or nil_expr(ps[0][1]):
            raise ValueError("load_fiber: unrecognised `else if let` branch")
        depths = [ps[0][0]]
        if toks[ec + 1].text == "else":
            fo, fc = body_after(toks, ec + 1)
            ps2 = pokes(toks, fo, fc)
            if len(ps2) == 1 and nil_expr(ps2[0][1]):
                poke_nil = True
                depths.append(ps2[0][0])
            else:
                raise ValueError("load_fiber: unrecognised final else branch")
        else:
            poke_nil = False
    else:
        raise ValueError("load_fiber: unrecognised else branch")
    return {"checks": checks, "pops_arg": pops, "pushes_closure": pushes_closure, "pushes_arg": pushes_arg,
            "poke_nil_on_resume": poke_nil, "poke_depths": depths}


def unload_fiber_shape(toks):
    o, c = fn_body(toks, "unload_fiber")
    body = texts(toks, o, c)
    pops = False
    for j in find_all_seq(toks, ["if", "arg", ".", "is_some", "(", ")"], o, c):
        bo, bc = body_after(toks, j)
        if has(texts(toks, bo, bc), ["self", ".", "pop", "(", ")"]):
            pops = True
    clears = has(body, ["caller", "=", "None"])
    saves_ip = has(body, ["ip", "=", "self", ".", "ip"])
    errs = err_returns(toks, o, c)
    ps = pokes(toks, o, c)
    nil_ok = len(ps) == 1 and nil_expr(ps[0][1])
    return {"pops_arg": pops, "clears_caller": clears, "saves_ip": saves_ip, "errors": errs,
            "poke_depths": [d for d, _ in ps], "poke_arg_or_nil": nil_ok}


def return_impl_shape(toks):
    o, c = fn_body(toks, "return_impl")
    j = find_seq(toks, ["unload_fiber", "(", "None", ")"], o, c)
    if j < 0:
        # not the modelled hand-over (`unload_fiber(None)?; poke(0, result)`): the constants say so and the side condition of
        # props/C09.v fails; gen/FiberArms.v still compiles, so everything that only evaluates the model keeps working
        k = find_seq(toks, ["unload_fiber", "("], o, c)
        arg = texts(toks, k + 2, match_group(toks, k + 1)) if k >= 0 else []
        return {"poke_depths": [], "poke_args": [], "unrecognised": "unload_fiber(%s)" % " ".join(arg) if k >= 0 else "no unload_fiber call"}
    e = find_seq(toks, ["return"], j, c)
    ps = pokes(toks, j, e if e > 0 else c)
    return {"poke_depths": [d for d, _ in ps], "poke_args": [" ".join(a) for _, a in ps]}


def register_shape(toks):
    """the cached registers of the interpreter (ip, active_chunk, active_module) are written together, by load_frame only,
    and every switch site ends with a call of it: load_fiber, unload_fiber, unwind_stack (return_impl switches through
    unload_fiber).  A site that assigns a register directly restores a DIFFERENT register set than the others."""
    REGS = ["ip", "active_chunk", "active_module"]

    def assigned(lo, hi):
        got = []
        for r in REGS:
            for j in find_all_seq(toks, ["self", ".", r, "="], lo, hi):
                if toks[j + 4].text != "=":      # not `==`
                    got.append(r)
                    break
        return got

    def ends_with_load_frame(name, after=None):
        o, c = fn_body(toks, name)
        calls = find_all_seq(toks, ["self", ".", "load_frame", "(", ")"], o, c)
        lo = o
        if after is not None:
            k = find_seq(toks, after, o, c)
            if k < 0:
                return False, assigned(o, c)
            lo = k
        return any(j > lo for j in calls), assigned(o, c)
    o, c = fn_body(toks, "load_frame")
    lf_sets = assigned(o, c)
    load_ok, load_direct = ends_with_load_frame("load_fiber", ["replace", "("])
    unload_ok, unload_direct = ends_with_load_frame("unload_fiber", ["poke", "("])
    unwind_ok, unwind_direct = ends_with_load_frame("unwind_stack", ["truncate", "("])
    return {"load_frame_sets": lf_sets, "load_fiber_reloads": load_ok, "load_fiber_direct": load_direct,
            "unload_fiber_reloads": unload_ok, "unload_fiber_direct": unload_direct,
            "unwind_stack_reloads": unwind_ok, "unwind_stack_direct": unwind_direct}


def all_fns(toks):
    """[(name, body_open, body_close)] of every `fn` with a body"""
    res = []
    for j in find_all_seq(toks, ["fn"]):
        if j + 2 >= len(toks) or toks[j + 1].kind != "id":
            continue
        k = j + 2
        depth = 0
        while k < len(toks):
            t = toks[k].text
            if toks[k].kind == "op":
                if t in ("(", "["):
                    depth += 1
                elif t in (")", "]"):
                    depth -= 1
                elif depth == 0 and t in ("{", ";"):
                    break
            k += 1
        if k < len(toks) and toks[k].text == "{":
            res.append((toks[j + 1].text, k, match_group(toks, k)))
    return res


ARITY_ACCESSORS = ("set_native_arity", "take_native_arity")
SLOT_READERS = ("native_frame_slot", "unchecked_native_frame_slot")
ARG_READERS = ("native_arg", "unchecked_native_arg")
SWITCH_SITES = ("load_fiber", "unload_fiber", "return_impl", "unwind_stack", "load_frame", "fiber_call", "fiber_yield",
                "fiber_has_finished")


def arity_shape(files):
    """round 7: `ObjFiber.native_arity` (the arity of the native in progress) is written by call_native on the fiber active
    BEFORE the native and cleared on the fiber active AFTER it - across a fiber switch these differ, so outside a native the
    record is stale (YV.FiberArityProofs.recorded_arity_stale_outside_native).  Facts read from the sources:
      direct_readers   functions that read the field / use the result of take_native_arity()   (accessors excluded)
      slot_callers     functions that call native_frame_slot / unchecked_native_frame_slot
      switch_sites_use the switch functions that mention the record or any accessor of the native frame
      brackets         call_native: set_native_arity(arg_count) ; function(self, arg_count) ; take_native_arity(); in this order"""
    direct, slot_callers, sites = [], [], []
    brackets = False
    for fname, toks in files:
        for name, o, c in all_fns(toks):
            body = texts(toks, o, c)
            reads = False
            for j in range(o, c):
                t = toks[j].text
                if t == "native_arity" and name not in ARITY_ACCESSORS:
                    nxt = toks[j + 1].text
                    nxt2 = toks[j + 2].text if j + 2 < len(toks) else ""
                    if nxt == ":" or (nxt == "=" and nxt2 != "="):
                        continue            # field declaration / initialiser / assignment
                    if nxt in (",", "}"):
                        continue            # struct shorthand
                    reads = True
                if t == "take_native_arity" and toks[j + 1].text == "(" and name not in ARITY_ACCESSORS:
                    e = match_group(toks, j + 1)
                    k = j
                    while k > o and toks[k].text not in (";", "{", "}"):
                        k -= 1
                    stmt = texts(toks, k + 1, j)
                    if toks[e + 1].text != ";" or "let" in stmt or "=" in stmt or "return" in stmt or stmt.count("(") > stmt.count(")"):
                        reads = True        # the value is used (not a bare statement `x.take_native_arity();`)
            if reads:
                direct.append(name)
            if any(has(body, [r, "("]) for r in SLOT_READERS) and name not in SLOT_READERS:
                slot_callers.append(name)
            if name in SWITCH_SITES:
                if any(w in body for w in ("native_arity",) + ARITY_ACCESSORS + SLOT_READERS + ARG_READERS):
                    sites.append(name)
            if name == "call_native":
                a = find_seq(toks, ["set_native_arity", "(", "arg_count", ")"], o, c)
                b = find_seq(toks, ["function", "(", "self", ",", "arg_count", ")"], o, c)
                d = find_seq(toks, ["take_native_arity", "(", ")", ";"], o, c)
                brackets = 0 <= a < b < d and len(find_all_seq(toks, ["set_native_arity"], o, c)) == 1 \
                    and len(find_all_seq(toks, ["take_native_arity"], o, c)) == 1
    ok = (sorted(direct) == sorted(SLOT_READERS) and sorted(slot_callers) == sorted(ARG_READERS) and not sites and brackets)
    return {"direct_readers": sorted(direct), "slot_callers": sorted(slot_callers), "switch_sites_use": sorted(sites),
            "call_native_brackets": brackets, "read_only_by_native_accessors": ok}


def fiber_call_shape(toks):
    o, c = fn_body(toks, "fiber_call")
    j = find_seq(toks, ["if", "is_new"], o, c)
    if j < 0:
        raise ValueError("fiber_call: `if is_new` not found")
    bo, bc = body_after(toks, j)
    then_txt = texts(toks, bo, bc)
    exact = has(then_txt, ["check_num_args", "(", "num_args", ",", "arity", "-", "1", ")", "?"])
    most = False
    if toks[bc + 1].text == "else":
        eo, ec = body_after(toks, bc + 1)
        et = texts(toks, eo, ec)
        most = has(et, ["num_args", ">", "1"]) and has(et, ["return", "Err"])
    o2, c2 = fn_body(toks, "fiber_yield")
    yt = texts(toks, o2, c2)
    ymost = has(yt, ["num_args", ">", "1"]) and has(yt, ["return", "Err"])
    return {"new_exact_arity": exact, "resumed_at_most_one": most, "yield_at_most_one": ymost}


def coq_str(lit):
    if lit is None:
        return '""'
    s = lit[1:-1]
    return '"%s"' % s.replace('"', '""')


def gen_fiber_arms(man):
    vm = toks_of("vm.rs")
    core = toks_of("core.rs")
    lf = load_fiber_shape(vm)
    uf = unload_fiber_shape(vm)
    ri = return_impl_shape(vm)
    fc = fiber_call_shape(core)
    rg = register_shape(vm)
    ar = arity_shape([("object.rs", toks_of("object.rs")), ("vm.rs", vm), ("core.rs", core)])
    man["c09_fiber_arms"] = {"load_fiber": lf, "unload_fiber": uf, "return_impl": ri, "fiber_natives": fc, "registers": rg,
                             "native_arity": ar}
    same_set = (rg["load_frame_sets"] == ["ip", "active_chunk", "active_module"] and rg["load_fiber_reloads"]
                and rg["unload_fiber_reloads"] and rg["unwind_stack_reloads"]
                and not rg["load_fiber_direct"] and not rg["unwind_stack_direct"]
                and rg["unload_fiber_direct"] in ([], ["ip"]))   # unload_fiber saves nothing else; `frame.ip = self.ip` is a read
    msg = {"CkFinished": None, "CkCaller": None}
    for name, (kind, lit) in lf["checks"]:
        if name in msg:
            msg[name] = (kind, lit)
    out_err = uf["errors"][0] if uf["errors"] else (None, None)
    kinds_ok = all(v is not None and v[0] == "RuntimeError" for v in msg.values()) and out_err[0] == "RuntimeError"

    def nat_list(ds):
        return "[" + "; ".join(d if d.isdigit() else "99" for d in ds) + "]"
    lines = [
        "(* generated by translator/translate_c09.py from yarel/src/vm.rs, core.rs - do not edit *)",
        "From Coq Require Import List String Bool.",
        "From YV Require Import Fibers.",
        "Import ListNotations.",
        "Open Scope string_scope.",
        "",
        "(* load_fiber: a fiber resumed without an argument gets nil poked into its pending-yield slot *)",
        "Definition poke_nil_on_resume : bool := %s." % ("true" if lf["poke_nil_on_resume"] else "false"),
        "(* load_fiber: the error checks before the switch, in source order *)",
        "Definition load_checks : list (option check) := [%s]." % "; ".join(
            "Some " + n if n != "CkUnknown" else "None" for n, _ in lf["checks"]),
        "Definition msg_finished : string := %s." % coq_str(msg["CkFinished"][1] if msg["CkFinished"] else None),
        "Definition msg_already : string := %s." % coq_str(msg["CkCaller"][1] if msg["CkCaller"] else None),
        "Definition msg_outside : string := %s." % coq_str(out_err[1]),
        "Definition error_kinds_runtime : bool := %s." % ("true" if kinds_ok else "false"),
        "(* load_fiber pops the argument off the CALLER's stack; a new fiber gets its closure and the argument pushed *)",
        "Definition load_pops_arg : bool := %s." % ("true" if lf["pops_arg"] else "false"),
        "Definition load_pushes_closure_and_arg : bool := %s." % ("true" if lf["pushes_closure"] and lf["pushes_arg"] else "false"),
        "Definition load_poke_depths : list nat := %s." % nat_list(lf["poke_depths"]),
        "(* unload_fiber *)",
        "Definition unload_pops_arg : bool := %s." % ("true" if uf["pops_arg"] else "false"),
        "Definition unload_clears_caller : bool := %s." % ("true" if uf["clears_caller"] else "false"),
        "Definition unload_saves_ip : bool := %s." % ("true" if uf["saves_ip"] else "false"),
        "Definition unload_poke_arg_or_nil : bool := %s." % ("true" if uf["poke_arg_or_nil"] else "false"),
        "Definition unload_poke_depths : list nat := %s." % nat_list(uf["poke_depths"]),
        "(* return_impl: after unload_fiber(None) the result is poked into the (new) active fiber *)",
        "Definition return_poke_depths : list nat := %s." % nat_list(ri["poke_depths"]),
        "Definition return_pokes_result : bool := %s." % ("true" if ri["poke_args"] == ["result"] else "false"),
        "(* core.rs fiber_call / fiber_yield arity rules *)",
        "Definition call_new_exact_arity : bool := %s." % ("true" if fc["new_exact_arity"] else "false"),
        "Definition call_resumed_at_most_one : bool := %s." % ("true" if fc["resumed_at_most_one"] else "false"),
        "Definition yield_at_most_one : bool := %s." % ("true" if fc["yield_at_most_one"] else "false"),
        "(* registers: ip, active_chunk AND active_module are restored together (load_frame) at every switch site *)",
        "Definition switch_sites_restore_same_registers : bool := %s." % ("true" if same_set else "false"),
        "(* native_arity (the arity of the native in progress) is read only by the natives' own argument accessors; no switch",
        "   function looks at it; call_native sets it before and clears it after the native function *)",
        "Definition arity_readers : list string := [%s]." % "; ".join('"%s"' % r for r in ar["direct_readers"]),
        "Definition arity_read_only_by_native_accessors : bool := %s." % ("true" if ar["read_only_by_native_accessors"] else "false"),
        "Close Scope string_scope.",
    ]
    return "\n".join(lines) + "\n"


GENERATORS = {"FiberArms.v": gen_fiber_arms}

if __name__ == "__main__":
    m = {}
    print(gen_fiber_arms(m))
    import json
    print(json.dumps(m, indent=1))
