"""C10: every site of vm.rs that assigns or reads one of the two representations of the active fiber
(`Vm.fiber : Option<Root<RefCell<ObjFiber>>>` and `Vm.unsafe_fiber : *mut ObjFiber`), with the enclosing
function, in source order -> gen/FiberSites.v.  ConfigModel.v's operations are written after exactly these
sites; props/C10.v compares the regenerated table with the reference table by computation."""
import os

from rustlex import lex, match_group, text_of  # noqa

SRC = os.path.join(os.environ.get("VERIF_REPO", "/repo"), "yarel", "src")


def toks_of(name):
    with open(os.path.join(SRC, name)) as fh:
        return lex(fh.read())


def fn_ranges(toks):
    res = []
    for j, t in enumerate(toks):
        if t.text == "fn" and j + 1 < len(toks) and toks[j + 1].kind == "id":
            # a declaration with a body: the first `{` or `;` after the signature
            k = j + 2
            depth = 0
            while k < len(toks):
                x = toks[k].text
                if x in "([<" and x != "<":
                    k = match_group(toks, k)
                elif x == "{" or x == ";":
                    break
                k += 1
            if k < len(toks) and toks[k].text == "{":
                res.append((toks[j + 1].text, k, match_group(toks, k)))
    return res


def enclosing(fns, j):
    best = None
    for name, lo, hi in fns:
        if lo < j < hi and (best is None or lo > best[1]):
            best = (name, lo, hi)
    return best[0] if best else "?"


def stmt_end(toks, j):
    """index of the `;` ending the statement that contains token j (brackets skipped)"""
    k = j
    while k < len(toks) and toks[k].text != ";":
        if toks[k].text in ("(", "[", "{"):
            k = match_group(toks, k)
        k += 1
    return k


def gen_fibersites(man):
    toks = toks_of("vm.rs")
    fns = fn_ranges(toks)
    sites = []
    for j in range(len(toks) - 3):
        if toks[j].text != "self" or toks[j + 1].text != ".":
            continue
        f = toks[j + 2].text
        if f not in ("fiber", "unsafe_fiber"):
            continue
        nxt = toks[j + 3].text
        where = enclosing(fns, j)
        if nxt == "=":
            e = stmt_end(toks, j)
            sites.append((where, f + " :=", text_of(toks, j + 4, e)))
        elif f == "fiber" and nxt == "." and toks[j + 4].text in ("replace", "take", "insert", "get_or_insert"):
            e = match_group(toks, j + 5)
            sites.append((where, "fiber." + toks[j + 4].text, text_of(toks, j + 6, e)))
        elif f == "unsafe_fiber":
            sites.append((where, "unsafe_fiber read", ""))
        else:
            # reads of the cell: only the method name is recorded (is_some, as_ref, ...)
            sites.append((where, "fiber read", toks[j + 4].text if nxt == "." else nxt))
    # struct-literal initialisers in Vm::new
    for j in range(len(toks) - 2):
        if toks[j].text in ("fiber", "unsafe_fiber") and toks[j + 1].text == ":" and toks[j - 1].text in (",", "{"):
            where = enclosing(fns, j)
            if where == "new":
                k = j + 2
                while toks[k].text != ",":
                    if toks[k].text in ("(", "[", "{"):
                        k = match_group(toks, k)
                    k += 1
                sites.append((where, toks[j].text + " init", text_of(toks, j + 2, k)))
    q = lambda s: '"%s"' % s.replace('"', "'")
    lines = ["(* GENERATED from vm.rs: every assignment / read of Vm.fiber and Vm.unsafe_fiber - do not edit *)",
             "From Coq Require Import List String.", "Import ListNotations.", "Open Scope string_scope.", "",
             "Definition fiber_sites : list (string * string * string) := [%s]." % ";\n  ".join(
                 "(%s, %s, %s)" % (q(a), q(b), q(c)) for a, b, c in sites), ""]
    man["fiber_sites"] = len(sites)
    return "\n".join(lines) + "\n"


GENERATORS = {"FiberSites.v": gen_fibersites}
