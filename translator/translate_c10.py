"""C10: every site of vm.rs that assigns or reads one of the two representations of the active fiber
(`Vm.fiber : Option<Root<RefCell<ObjFiber>>>` and `Vm.unsafe_fiber : *mut ObjFiber`), with the enclosing
function, in source order -> gen/FiberSites.v.  ConfigModel.v's operations are written after exactly these
sites; props/C10.v compares the regenerated table with the reference table by computation."""
import os

from rustlex import lex, match_group, text_of  # noqa

SRC = os.path.join(os.environ.get("VERIF_REPO", "/repo"), "yarel", "src")


def toks_of(name):
    with open(os.path.join(SRC, name)) as fh:
        return lex(fh.read())


def fn_ranges(toks):
    res = []
    for j, t in enumerate(toks):
        if t.text == "fn" and j + 1 < len(toks) and toks[j + 1].kind == "id":
            # a declaration with a body: the first `{` or `;` after the signature
            k = j + 2
            depth = 0
            while k < len(toks):
                x = toks[k].text
                if x in "([<" and x != "<":
                    k = match_group(toks, k)
                elif x == "{" or x == ";":
                    break
                k += 1
            if k < len(toks) and toks[k].text == "{":
                res.append((toks[j + 1].text, k, match_group(toks, k)))
    return res


def enclosing(fns, j):
    best = None
    for name, lo, hi in fns:
        if lo < j < hi and (best is None or lo > best[1]):
            best = (name, lo, hi)
    return best[0] if best else "?"


def stmt_end(toks, j):
    """index of the `;` ending the statement that contains token j (brackets skipped)"""
    k = j
    while k < len(toks) and toks[k].text != ";":
        if toks[k].text in ("(", "[", "{"):
            k = match_group(toks, k)
        k += 1
    return k


def gen_fibersites(man):
    toks = toks_of("vm.rs")
    fns = fn_ranges(toks)
    sites = []
    for j in range(len(toks) - 3):
        if toks[j].text != "self" or toks[j + 1].text != ".":
            continue
        f = toks[j + 2].text
        if f not in ("fiber", "unsafe_fiber"):
            continue
        nxt = toks[j + 3].text
        where = enclosing(fns, j)
        if nxt == "=":
            e = stmt_end(toks, j)
            sites.append((where, f + " :=", text_of(toks, j + 4, e)))
        elif f == "fiber" and nxt == "." and toks[j + 4].text in ("replace", "take", "insert", "get_or_insert"):
            e = match_group(toks, j + 5)
            sites.append((where, "fiber." + toks[j + 4].text, text_of(toks, j + 6, e)))
        elif f == "unsafe_fiber":
            sites.append((where, "unsafe_fiber read", ""))
        else:
            # reads of the cell: only the method name is recorded (is_some, as_ref, ...)
            sites.append((where, "fiber read", toks[j + 4].text if nxt == "." else nxt))
    # struct-literal initialisers in Vm::new
    for j in range(len(toks) - 2):
        if toks[j].text in ("fiber", "unsafe_fiber") and toks[j + 1].text == ":" and toks[j - 1].text in (",", "{"):
            where = enclosing(fns, j)
            if where == "new":
                k = j + 2
                while toks[k].text != ",":
                    if toks[k].text in ("(", "[", "{"):
                        k = match_group(toks, k)
                    k += 1
                sites.append((where, toks[j].text + " init", text_of(toks, j + 2, k)))
    q = lambda s: '"%s"' % s.replace('"', "'")
    lines = ["(* GENERATED from vm.rs: every assignment / read of Vm.fiber and Vm.unsafe_fiber - do not edit *)",
             "From Coq Require Import List String.", "Import ListNotations.", "Open Scope string_scope.", "",
             "Definition fiber_sites : list (string * string * string) := [%s]." % ";\n  ".join(
                 "(%s, %s, %s)" % (q(a), q(b), q(c)) for a, b, c in sites), ""]
    man["fiber_sites"] = len(sites)
    # second table of the same file (round 9): every DEBUG-ONLY construct of yarel/src with file and enclosing function
    dsites = debug_sites()
    lines += ["(* GENERATED from yarel/src/*.rs: every debug-only construct - debug_assert!/debug_assert_eq!/debug_assert_ne!,",
              "   every mention of debug_assertions (cfg!, #[cfg], cfg_attr) and of overflow_checks - with file, enclosing",
              "   function and (for assertions) the asserted text - do not edit *)",
              "Definition debug_sites : list (string * string * string) := [%s]." % ";\n  ".join(
                  "(%s, %s, %s)" % (q(a), q(b), q(c)) for a, b, c in dsites), ""]
    man["debug_sites"] = len(dsites)
    return "\n".join(lines) + "\n"


DEBUG_MACROS = ("debug_assert!", "debug_assert_eq!", "debug_assert_ne!")
DEBUG_IDS = ("debug_assertions", "overflow_checks")


def debug_sites():
    """(file, enclosing fn, what): code that exists in the checked (dev) configuration only, or whose condition names
    the checked configuration.  A debug-only assertion is a dev-only way to END a program (panic) and therefore a C10
    divergence unless its condition is an invariant of every reachable state - each one must be known to the model."""
    out = []
    for f in sorted(os.listdir(SRC)):
        if not f.endswith(".rs"):
            continue
        toks = toks_of(f)
        fns = fn_ranges(toks)
        for j, t in enumerate(toks):
            if t.kind != "id":
                continue
            if t.text in DEBUG_MACROS or (t.text.rstrip("!") + "!") in DEBUG_MACROS and j + 1 < len(toks) and toks[j + 1].text == "!":
                k = j + 1
                while k < len(toks) and toks[k].text not in ("(", "[", "{"):
                    k += 1
                e = match_group(toks, k) if k < len(toks) else k
                out.append((f, enclosing(fns, j), "%s %s" % (t.text.rstrip("!") + "!", text_of(toks, k + 1, e))))
            elif t.text in DEBUG_IDS:
                # the attribute/macro the mention sits in: cfg!(..) / #[cfg(..)] / #[cfg_attr(..)] / other
                k = j
                depth = 0
                how = "bare"
                while k > 0 and j - k < 40:
                    k -= 1
                    x = toks[k].text
                    if x == ")":
                        depth += 1
                    elif x == "(":
                        if depth == 0 and toks[k - 1].text in ("cfg!", "cfg", "cfg_attr"):
                            how = "cfg!" if toks[k - 1].text == "cfg!" else "#[%s]" % toks[k - 1].text
                            break
                        depth = max(0, depth - 1)
                # an item-level #[cfg] precedes the fn it guards: name the function that follows
                where = enclosing(fns, j)
                if how != "cfg!":
                    nxt = next((toks[m + 1].text for m in range(j, min(j + 40, len(toks) - 1)) if toks[m].text == "fn"), None)
                    if nxt and where == "?":
                        where = nxt
                    elif nxt and how.startswith("#["):
                        where = where + "/" + nxt
                out.append((f, where, "%s %s" % (how, t.text)))
    return out


GENERATORS = {"FiberSites.v": gen_fibersites}


# ---------------------------------------------------------------------------------------------------------
# Arithmetic of the hashing code that is NOT in the subset of the r2g translator (closures, iterator chains):
# `impl Hash for Value`, `impl Hash for Gc<ObjTuple>`, `impl Hash for Gc<ObjString>`, PassThroughHasher.
# An overflow-CHECKED operator (+ - * / % << >> and their compound forms: panics in a dev build, wraps in a
# release build) on full-width u64 hashes is a C10 divergence; the total operators (^ & |, wrapping_*) are not.
# The table lists, per region, every checked operator with its neighbour tokens, and every total combiner.

KEYWORDS = {"if", "else", "match", "return", "in", "let", "mut", "while", "for", "loop", "as", "move", "ref", "break",
            "continue", "fn", "impl", "where", "unsafe", "use", "pub", "struct", "enum", "const", "static"}
CHECKED = {"+", "-", "*", "/", "%", "<<", ">>", "+=", "-=", "*=", "/=", "%=", "<<=", ">>="}
TOTAL = {"^", "^=", "wrapping_add", "wrapping_sub", "wrapping_mul", "wrapping_shl", "wrapping_shr"}


def is_operand_end(t):
    return (t.kind in ("num", "str", "chr") or (t.kind == "id" and t.text not in KEYWORDS and not t.text.endswith("!"))
            or t.text in (")", "]", "?"))


def find_impl(toks, head):
    """token range of the body of `impl <head...> {`"""
    k = len(head)
    for i in range(len(toks) - k):
        if toks[i].text == "impl" and [t.text for t in toks[i + 1:i + 1 + k]] == head:
            j = i + 1 + k
            while toks[j].text != "{":
                j += 1
            return j, match_group(toks, j)
    return None


def arith_of(toks, lo, hi):
    checked, total = [], []
    for j in range(lo + 1, hi):
        t = toks[j]
        if t.kind == "op" and t.text in CHECKED:
            binary = is_operand_end(toks[j - 1])
            if t.text in ("-", "*") and not binary:
                if t.text == "-":
                    checked.append("neg %s" % toks[j + 1].text)      # unary minus on an integer can overflow too
                continue
            if t.text in ("<<", ">>") and not binary:
                continue
            checked.append("%s %s %s" % (toks[j - 1].text, t.text, toks[j + 1].text))
        elif (t.kind == "op" and t.text in TOTAL) or (t.kind == "id" and t.text in TOTAL):
            total.append("%s %s %s" % (toks[j - 1].text, t.text, toks[j + 1].text))
    return checked, total


HASH_REGIONS = [("value.rs", ["Hash", "for", "Value"]),
                ("object.rs", ["Hash", "for", "Gc", "<", "ObjTuple", ">"]),
                ("object.rs", ["Hash", "for", "Gc", "<", "ObjString", ">"]),
                ("hash.rs", ["Hasher", "for", "PassThroughHasher"]),
                ("hash.rs", ["Default", "for", "PassThroughHasher"])]


def gen_hasharith(man):
    rows = []
    for f, head in HASH_REGIONS:
        toks = toks_of(f)
        r = find_impl(toks, head)
        name = "%s: impl %s" % (f, " ".join(head))
        if r is None:
            rows.append((name, ["unknown"], ["unknown"]))
            continue
        c, t = arith_of(toks, r[0], r[1])
        rows.append((name, c, t))
    # is any OTHER `impl Hash for` / `impl Hasher for` in the sources?  (a new hashable kind must be looked at)
    others = []
    for f in sorted(os.listdir(SRC)):
        if not f.endswith(".rs"):
            continue
        toks = toks_of(f)
        for i in range(len(toks) - 3):
            if toks[i].text == "impl" and toks[i + 1].text in ("Hash", "Hasher", "BuildHasher") and toks[i + 2].text == "for":
                j = i + 3
                txt = []
                while toks[j].text != "{":
                    txt.append(toks[j].text)
                    j += 1
                others.append("%s: impl %s for %s" % (f, toks[i + 1].text, " ".join(txt)))
    q = lambda s: '"%s"' % s.replace('"', "'")
    ql = lambda l: "[%s]" % "; ".join(q(x) for x in l)
    lines = ["(* GENERATED from value.rs / object.rs / hash.rs: arithmetic operators of the hashing code - do not edit *)",
             "From Coq Require Import List String.", "Import ListNotations.", "Open Scope string_scope.", "",
             "(* region, overflow-checked operators (panic in dev, wrap in release), total combiners *)",
             "Definition hash_arith : list (string * list string * list string) := [%s]." % ";\n  ".join(
                 "(%s, %s, %s)" % (q(n), ql(c), ql(t)) for n, c, t in rows),
             "Definition hash_impls : list string := %s." % ql(others), ""]
    man["hash_arith"] = {n: c for n, c, _ in rows}
    return "\n".join(lines) + "\n"


GENERATORS["HashArith.v"] = gen_hasharith
