"""C11 (round 9): every place of yarel/src where an ObjString VALUE is constructed, read from the CURRENT sources at
token level and written to coq/gen/StrSites.v.  props/C11.v demands (by computation) that the table is exactly

    object.rs   ObjString::new                      struct literal `ObjString { .. }`   (the constructor itself)
    vm.rs       Vm::new_gc_obj_string               `ObjString::new(..)`                (the interner)
    vm.rs       verif_intern::InternTable::insert   `ObjString::new(..)`                (hook H3, feature verif_hooks)

so that a NEW construction site that by-passes the intern table (an error message, a type name, a conversion that
allocates its own string "because it is long/unique/temporary") breaks a NAMED obligation.  Also regenerated:
  * the derive list of `struct ObjString` (a `Clone` would be a construction route of its own);
  * the shape of Vm::new_gc_obj_string: brace depth (relative to the function body) of the table lookup
    `string_store.get(`, of the construction `ObjString::new(` and of the registration `string_store.insert(`, the number of
    each, and the number of `return`s - on the current source: looked up once at depth 1, constructed once at depth 1,
    registered once at depth 1 (= unconditionally), one early return (the hit).  A registration that becomes conditional
    ("do not keep strings longer than N in the table") changes the depth."""
import os
import sys

sys.path.insert(0, os.path.dirname(os.path.abspath(__file__)))
from rustlex import lex, match_group, find_seq  # noqa

REPO = os.environ.get("VERIF_REPO", "/repo")
SRC = os.path.join(REPO, "yarel", "src")


def items(toks):
    """[(kind, name, open_idx, close_idx)] of every fn / mod / impl / struct body"""
    res = []
    for i, t in enumerate(toks):
        if t.text in ("fn", "mod", "struct", "trait") and i + 1 < len(toks) and toks[i + 1].kind == "id":
            name = toks[i + 1].text
        elif t.text == "impl":
            name = None
        else:
            continue
        j = i + 1
        depth = 0
        while j < len(toks):
            x = toks[j].text
            if x in ("(", "["):
                j = match_group(toks, j)
            elif x == "{" and depth == 0:
                break
            elif x == ";" and depth == 0:
                j = -1
                break
            j += 1
            if j < 0:
                break
        if j < 0 or j >= len(toks):
            continue
        if name is None:   # impl [<..>] [Trait for] Type [<..>] {   -> the last identifier before `{` that is not a generic argument
            ids = [toks[k].text for k in range(i + 1, j) if toks[k].kind == "id"]
            hdr = [toks[k].text for k in range(i + 1, j)]
            name = ids[ids.index("for") + 1] if "for" in ids and ids.index("for") + 1 < len(ids) else (ids[0] if ids else "?")
            if hdr and hdr[0] == "<":   # impl<T> X<T>
                d = 0
                for k in range(i + 1, j):
                    if toks[k].text == "<":
                        d += 1
                    elif toks[k].text == ">":
                        d -= 1
                        if d == 0:
                            rest = [toks[m].text for m in range(k + 1, j) if toks[m].kind == "id"]
                            name = rest[rest.index("for") + 1] if "for" in rest and rest.index("for") + 1 < len(rest) else (rest[0] if rest else "?")
                            break
        res.append((t.text, name, j, match_group(toks, j)))
    return res


def path_of(its, idx):
    encl = sorted([it for it in its if it[2] < idx < it[3] and it[0] != "struct"], key=lambda it: it[2])
    return "::".join(it[1] for it in encl) or "(top level)"


def scan():
    sites = []
    derives = None
    shape = None
    for f in sorted(os.listdir(SRC)):
        if not f.endswith(".rs"):
            continue
        with open(os.path.join(SRC, f)) as fh:
            toks = lex(fh.read())
        its = items(toks)
        in_impl_objstring = [(o, c) for k, n, o, c in its if k == "impl" and n == "ObjString"]
        for i, t in enumerate(toks):
            nxt = [x.text for x in toks[i + 1:i + 4]]
            prev = toks[i - 1].text if i else ""
            if t.text == "ObjString" and nxt[:1] == ["::"] and len(nxt) > 1 and nxt[1] not in ("<",):
                # ObjString::new( / ObjString::anything - also a path used as a function value (map(ObjString::new))
                sites.append((f, path_of(its, i), "ObjString::%s" % nxt[1]))
            elif t.text == "ObjString" and nxt[:1] == ["{"] and prev not in ("struct", "for", "impl", "enum", "trait", "mod"):
                sites.append((f, path_of(its, i), "struct literal"))
            elif t.text == "Self" and any(o < i < c for o, c in in_impl_objstring) and nxt[:1] in (["{"], ["::"]) and prev != "->":
                sites.append((f, path_of(its, i), "Self literal/call"))
            if t.text == "struct" and nxt[:1] == ["ObjString"]:
                # attributes directly before `pub struct ObjString`
                derives = []
                k = i - 1
                while k >= 0 and toks[k].text in ("pub", ")", "crate", "("):
                    k -= 1
                while k >= 0 and toks[k].text == "]":
                    o = k
                    d = 0
                    while o >= 0:
                        if toks[o].text == "]":
                            d += 1
                        elif toks[o].text == "[":
                            d -= 1
                            if d == 0:
                                break
                        o -= 1
                    attr = [x.text for x in toks[o + 1:k]]
                    if attr[:1] == ["derive"]:
                        derives += [a for a in attr[2:-1] if a != ","]
                    else:
                        derives.append("#[" + " ".join(attr) + "]")
                    k = o - 2   # skip `#`
        if f == "vm.rs":
            i = find_seq(toks, ["fn", "new_gc_obj_string"])
            if i < 0:
                raise ValueError("vm.rs: fn new_gc_obj_string not found")
            o = i
            while toks[o].text != "{":
                o += 1
            c = match_group(toks, o)
            depth = 0
            ev = {"get": [], "ctor": [], "insert": [], "return": []}
            for k in range(o, c + 1):
                x = toks[k].text
                if x == "{":
                    depth += 1
                elif x == "}":
                    depth -= 1
                seq = [y.text for y in toks[k:k + 4]]
                if seq == ["string_store", ".", "get", "("]:
                    ev["get"].append(depth)
                elif seq == ["string_store", ".", "insert", "("]:
                    ev["insert"].append(depth)
                elif seq[:3] == ["ObjString", "::", "new"]:
                    ev["ctor"].append(depth)
                elif x == "return":
                    ev["return"].append(depth)
            shape = ev
    if derives is None:
        raise ValueError("struct ObjString not found")
    if shape is None:
        raise ValueError("vm.rs not found")
    return sites, derives, shape


def q(s):
    return '"%s"' % s.replace('"', "'")


def gen_strsites(man):
    sites, derives, shape = scan()
    nl = lambda l: "[%s]" % "; ".join(str(x) for x in l)
    lines = ["(* GENERATED by translator/translate_c11.py from yarel/src/*.rs - do not edit *)",
             "From Coq Require Import List String.", "Import ListNotations.", "Open Scope string_scope.", "",
             "(* every construction of an ObjString value: (file, enclosing item path, form) *)",
             "Definition objstring_construction_sites : list (string * string * string) := [%s]." % ";\n  ".join(
                 "(%s, %s, %s)" % (q(a), q(b), q(c)) for a, b, c in sites),
             "Definition objstring_derives : list string := [%s]." % "; ".join(q(d) for d in derives),
             "(* Vm::new_gc_obj_string: brace depths of string_store.get( / ObjString::new( / string_store.insert( / return *)",
             "Definition intern_fn_get_depths : list nat := %s." % nl(shape["get"]),
             "Definition intern_fn_ctor_depths : list nat := %s." % nl(shape["ctor"]),
             "Definition intern_fn_insert_depths : list nat := %s." % nl(shape["insert"]),
             "Definition intern_fn_return_depths : list nat := %s." % nl(shape["return"]), ""]
    man["c11_objstring_sites"] = [list(s) for s in sites]
    man["c11_intern_fn_shape"] = shape
    return "\n".join(lines) + "\n"


GENERATORS = {"StrSites.v": gen_strsites}

if __name__ == "__main__":
    print(gen_strsites({}))
