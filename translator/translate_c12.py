"""C12: regenerates coq/gen/ValueArms.v from value.rs, object.rs, memory.rs, utils.rs, core.rs, vm.rs.
Tables: arms of Value::has_hash, of `impl Hash for Value`, of `impl PartialEq for Value`, the shape of the tuple
hash / tuple equality / Gc equality, the ValueError format of the key check, the numeric parameters of the hash
(constants of the Boolean/None arms, seed and operator of the tuple fold) and whether utils::hash_number maps
-0.0 to +0.0 before hashing.  Fails closed: an unrecognised shape becomes an `unknown:…` summary, which breaks a
named obligation of coq/props/C12.v."""
import os
import sys

sys.path.insert(0, os.path.dirname(os.path.abspath(__file__)))
from rustlex import lex, match_group, find_seq, find_all_seq, body_after, split_top  # noqa

REPO = os.environ.get("VERIF_REPO", "/repo")
SRC = os.path.join(REPO, "yarel", "src")


def toks_of(name):
    with open(os.path.join(SRC, name)) as fh:
        return lex(fh.read())


def norm(toks, lo, hi):
    """token text without spaces; a surrounding block `{ … }` is dropped; `utils::` prefixes are dropped"""
    while hi - lo >= 2 and toks[lo].text == "{" and match_group(toks, lo) == hi - 1:
        lo, hi = lo + 1, hi - 1
    out = []
    j = lo
    while j < hi:
        if toks[j].text == "utils" and j + 1 < hi and toks[j + 1].text == "::":
            j += 2
            continue
        out.append(toks[j].text)
        j += 1
    s = "".join(out)
    return s[:-1] if s.endswith(",") or s.endswith(";") else s


def match_arms(toks, lo, hi):
    """arms of the first `match … { … }` inside toks[lo:hi]: list of (pattern range, body range)"""
    m = find_seq(toks, ["match"], lo, hi)
    if m < 0:
        return None
    o, c = body_after(toks, m)
    arms = []
    j = o + 1
    while j < c:
        # pattern up to `=>` at depth 0
        depth = 0
        k = j
        while k < c and not (toks[k].text == "=>" and depth == 0):
            if toks[k].text in "([{":
                depth += 1
            elif toks[k].text in ")]}":
                depth -= 1
            k += 1
        if k >= c:
            break
        b = k + 1
        if toks[b].text == "{":
            e = match_group(toks, b) + 1
            if e < c and toks[e].text == ",":
                e += 1
        else:
            depth = 0
            e = b
            while e < c and not (toks[e].text == "," and depth == 0):
                if toks[e].text in "([{":
                    depth += 1
                elif toks[e].text in ")]}":
                    depth -= 1
                e += 1
            e += 1
        arms.append(((j, k), (b, min(e, c))))
        j = e
    return arms


def variant_of(toks, lo, hi):
    """`Value::X(..)` / `(Value::X(a), Value::X(b))` / `_`"""
    names = [toks[j + 2].text for j in find_all_seq(toks, ["Value", "::"], lo, hi)]
    if not names:
        return "_" if norm(toks, lo, hi) == "_" else "?"
    if len(set(names)) != 1:
        return "?mixed:" + "/".join(names)
    return names[0]


def int_lit(text):
    """value of a Rust integer literal: underscores are separators, a type suffix is dropped; None if not one"""
    t = text
    for suf in ("_u64", "u64", "_usize", "usize", "_u128", "u128", "_i64", "i64"):
        if t.endswith(suf):
            t = t[:-len(suf)]
            break
    t = t.replace("_", "")
    try:
        return int(t, 0) if t[:2] in ("0x", "0b", "0o") else int(t)
    except ValueError:
        return None


def find_impl(toks, header):
    """index of `impl … <header tokens>`"""
    for i in find_all_seq(toks, header):
        # look back for `impl` on the same item
        j = i
        while j >= 0 and toks[j].text not in ("impl", "}", ";"):
            j -= 1
        if j >= 0 and toks[j].text == "impl":
            return i
    return -1


def gen_value_arms(man):
    val = toks_of("value.rs")
    obj = toks_of("object.rs")
    mem = toks_of("memory.rs")
    utl = toks_of("utils.rs")
    core = toks_of("core.rs")
    vm = toks_of("vm.rs")
    info = {}

    # ---- Value::has_hash
    hh = []
    i = find_seq(val, ["fn", "has_hash"])
    if i >= 0:
        o, c = body_after(val, i)
        for (pl, ph), (bl, bh) in match_arms(val, o, c) or []:
            v = variant_of(val, pl, ph)
            b = norm(val, bl, bh)
            if b in ("true", "false"):
                s = b
            elif b.endswith(".has_hash()"):
                s = "delegate:has_hash"
            else:
                s = "unknown:" + b
            hh.append((v, s))
    # ---- ObjTuple::has_hash
    th = "unknown"
    i = find_impl(obj, ["impl", "ObjTuple", "{"])
    if i >= 0:
        o, c = body_after(obj, i)
        f = find_seq(obj, ["fn", "has_hash"], o, c)
        if f >= 0:
            fo, fc = body_after(obj, f)
            b = norm(obj, fo + 1, fc)
            if ".elements.iter().map(|v|v.has_hash()).fold(true,|a,b|a&&b)" in b or ".elements.iter().all(|v|v.has_hash())" in b:
                th = "elements.iter.map(has_hash).fold(true,&&)"
            else:
                th = "unknown:" + b[:120]
    # ---- impl Hash for Value
    ha = []
    consts = {"bool_hash_true": None, "bool_hash_false": None, "none_hash": None}
    i = find_impl(val, ["Hash", "for", "Value"])
    writes = False
    if i >= 0:
        o, c = body_after(val, i)
        writes = find_seq(val, ["state", ".", "write_u64", "(", "hash", ")"], o, c) >= 0
        for (pl, ph), (bl, bh) in match_arms(val, o, c) or []:
            v = variant_of(val, pl, ph)
            b = norm(val, bl, bh)
            s = None
            if b.startswith("if*b{") and "}else{" in b:
                t, f = b[len("if*b{"):].split("}else{")
                f = f.rstrip("}")
                if int_lit(t) is not None and int_lit(f) is not None:
                    consts["bool_hash_true"], consts["bool_hash_false"] = int_lit(t), int_lit(f)
                    s = "if-const"
            elif int_lit(b) is not None and v == "None":
                consts["none_hash"] = int_lit(b)
                s = "const"
            elif b == "hash_number(*n)":
                s = b
            elif b in ("s.hash", "c.name.hash"):
                s = b
            elif b == "hash_number(r.beginasf64)^hash_number(r.endasf64)":
                s = "hash_number(r.begin as f64)^hash_number(r.end as f64)"
            elif b == "letmuthasher=PassThroughHasher::default();t.hash(&muthasher);hasher.finish()":
                s = "passthrough(t.hash)"
            elif b.startswith("panic!("):
                s = "panic"
            elif v == "ObjFunction":
                s = "other"       # has_hash is false for functions: the arm is unreachable through the map
            if s is None:
                s = "unknown:" + b[:120]
            ha.append((v, s))
    if not writes:
        ha.append(("write_u64", "unknown:missing"))
    # ---- impl Hash for Gc<ObjTuple>
    tuple_hash = "unknown"
    seed = None
    fold_add = None
    i = find_impl(obj, ["Hash", "for", "Gc", "<", "ObjTuple", ">"])
    if i >= 0:
        o, c = body_after(obj, i)
        b = norm(obj, o + 1, c)
        shape = (".elements.iter().map(|v|{letmuthasher=PassThroughHasher::default();v.hash(&muthasher);hasher.finish()})" in b
                 and "state.write_u64(hash)" in b)
        f = find_seq(obj, [".", "fold", "("], o, c)
        if f >= 0:
            fe = match_group(obj, f + 2)
            parts = split_top(obj, f + 3, fe)
            if len(parts) >= 2:
                seed = int_lit(norm(obj, *parts[0]))
                cl = norm(obj, parts[1][0], fe)      # the closure `|a, b| …` (its parameter list holds a comma)
                cl = cl.replace(":u64", "")             # `|a: u64, b: u64| …`
                if cl == "|a,b|a^b":
                    fold_add = False
                elif cl in ("|a,b|a.wrapping_add(b)", "|a,b|a+b"):
                    fold_add = True      # (`a + b` would overflow-panic in the checked build: C02's business)
        tuple_hash = "elements.iter.map(passthrough(v.hash)).fold" if shape else "unknown:" + b[:160]
    # ---- impl PartialEq for Value
    ea = []
    i = find_impl(val, ["PartialEq", "for", "Value"])
    if i >= 0:
        o, c = body_after(val, i)
        for (pl, ph), (bl, bh) in match_arms(val, o, c) or []:
            v = variant_of(val, pl, ph)
            b = norm(val, bl, bh)
            s = {"first==second": "val", "*first==*second": "ptr", "**first==**second": "deref",
                 "*first.borrow()==*second.borrow()": "borrow", "true": "true", "false": "false"}.get(b, "unknown:" + b[:80])
            ea.append((v, s))
    # ---- impl PartialEq for ObjTuple / for Gc<T>
    tuple_eq = "unknown"
    i = find_impl(obj, ["PartialEq", "for", "ObjTuple"])
    if i >= 0:
        o, c = body_after(obj, i)
        f = find_seq(obj, ["fn", "eq"], o, c)
        fo, fc = body_after(obj, f)
        b = norm(obj, fo + 1, fc)
        if b == "ifselfas*const_==otheras*const_{returntrue;}self.elements==other.elements":
            tuple_eq = "ptr-shortcut;elements==elements"
        elif b == "self.elements==other.elements":
            tuple_eq = "elements==elements"
        else:
            tuple_eq = "unknown:" + b[:120]
    gc_eq = "unknown"
    i = find_impl(mem, ["PartialEq", "for", "Gc", "<", "T", ">"])
    if i >= 0:
        o, c = body_after(mem, i)
        f = find_seq(mem, ["fn", "eq"], o, c)
        fo, fc = body_after(mem, f)
        b = norm(mem, fo + 1, fc)
        gc_eq = "as_ptr==as_ptr" if b == "self.ptr.as_ptr()==other.ptr.as_ptr()" else "unknown:" + b[:120]
    # ---- the key check's message
    fmts = []
    for toks, fn in ((core, "validate_hash_map_key"), (vm, "build_hash_map")):
        i = find_seq(toks, ["fn", fn])
        if i >= 0:
            o, c = body_after(toks, i)
            ok = find_seq(toks, ["has_hash", "(", ")"], o, c) >= 0 and find_seq(toks, ["ErrorKind", "::", "ValueError"], o, c) >= 0
            strs = [t.text[1:-1] for t in toks[o:c] if t.kind == "str"]
            fmts.append(strs[0] if ok and strs else "unknown")
        else:
            fmts.append("unknown")
    # ---- utils::hash_number: is -0.0 normalised before the bits are taken?
    nz = None
    i = find_seq(utl, ["fn", "hash_number"])
    if i >= 0:
        o, c = body_after(utl, i)
        k = find_seq(utl, ["to_ne_bytes"], o, c)
        kb = find_seq(utl, ["to_bits"], o, c)
        k = k if k >= 0 else kb
        if k >= 0:
            # tokens of the statements that precede the one taking the bits
            stmt_start = o + 1
            for j in range(o + 1, k):
                if utl[j].text == ";":
                    stmt_start = j + 1
            pre = [t.text for t in utl[o + 1:stmt_start]]
            taking = [t.text for t in utl[stmt_start:k]]
            zero = any(t in ("0.0", "0.0_f64", "0f64", "0.0f64", "0_f64") for t in pre + taking)
            if not pre and not zero and "is_sign_negative" not in taking:
                nz = False
            elif (zero and ("==" in pre + taking or "+" in pre + taking)) or "is_sign_negative" in pre + taking:
                nz = True
    info.update({"has_hash_arms": hh, "tuple_has_hash": th, "hash_arms": ha, "tuple_hash": tuple_hash,
                 "tuple_fold_seed": seed, "tuple_fold_add": fold_add, "eq_arms": ea, "tuple_eq": tuple_eq, "gc_eq": gc_eq,
                 "key_error_formats": fmts, "hash_number_normalises_neg_zero": nz})
    info.update(consts)
    man["value_arms"] = info

    q = lambda s: '"%s"' % s.replace('"', "'")
    pairs = lambda l: "[%s]" % "; ".join("(%s, %s)" % (q(a), q(b)) for a, b in l)
    known_nums = all(isinstance(x, int) for x in (consts["bool_hash_true"], consts["bool_hash_false"], consts["none_hash"], seed)) and fold_add is not None
    z = lambda x: "%d" % x if isinstance(x, int) else "0"
    lines = [
        "(* GENERATED by translator/translate_c12.py from value.rs, object.rs, memory.rs, utils.rs, core.rs, vm.rs - do not edit *)",
        "From Coq Require Import List String ZArith.", "Import ListNotations.", "Open Scope string_scope.", "",
        "Definition has_hash_arms : list (string * string) := %s." % pairs(hh),
        "Definition tuple_has_hash : string := %s." % q(th),
        "Definition hash_arms : list (string * string) := %s." % pairs(ha),
        "Definition tuple_hash : string := %s." % q(tuple_hash),
        "Definition eq_arms : list (string * string) := %s." % pairs(ea),
        "Definition tuple_eq : string := %s." % q(tuple_eq),
        "Definition gc_eq : string := %s." % q(gc_eq),
        "Definition key_error_formats : list string := [%s]." % "; ".join(q(f) for f in fmts),
        "(* numeric parameters of the hash (not hard-wired in the model: any values are coherent) *)",
        "Definition bool_hash_true : Z := %s%%Z." % z(consts["bool_hash_true"]),
        "Definition bool_hash_false : Z := %s%%Z." % z(consts["bool_hash_false"]),
        "Definition none_hash : Z := %s%%Z." % z(consts["none_hash"]),
        "Definition tuple_fold_seed : Z := %s%%Z." % z(seed),
        "Definition tuple_fold_add : bool := %s." % ("true" if fold_add else "false"),
        "Definition hash_params_known : bool := %s." % ("true" if known_nums else "false"),
        "(* utils::hash_number: `let num = if num == 0.0 { 0.0 } else { num };` (or an equivalent idiom) before the bits are taken *)",
        "Definition hash_number_normalises_neg_zero : bool := %s." % ("true" if nz else "false"),
        "Definition hash_number_shape_known : bool := %s." % ("true" if nz is not None else "false"),
        ""]
    return "\n".join(lines) + "\n"


GENERATORS = {"ValueArms.v": gen_value_arms}
