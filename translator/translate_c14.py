"""C14: the hand-written pieces of the import machinery, read at token level from the CURRENT sources and
written to coq/gen/ImportArms.v.  props/C14.v compares them, by computation, with what YV.Modules hard-wires.

  vm.rs        fn start_import_impl : order of the stages (registry lookup, loader, compile, Vm::module,
                                      call_value, init_built_in_globals), the registry-hit branch
                                      (`if module.borrow().imported` push / else ImportError), the three
                                      ImportError formats, which module's built-ins are initialised
               fn finish_import_impl: `.imported = true`
               fn init_built_in_globals: the names it defines
               fn load_frame        : `self.active_module = <closure.module of the current frame>`
               fn call_closure      : `frames.len() == common::FRAMES_MAX`, load_frame after push_call_frame
               fn return_impl / unwind_stack : call load_frame
               fn get/set/define_global_impl : use self.active_module
               fn closure_impl      : new closures take self.active_module
               fn reset             : retains exactly "main"
  compiler.rs  fn import_statement  : the "main" literal and its message; default alias = Path::file_name
  core.yl      the classes it defines (globals of module "main" only)

A renaming of local variables keeps everything; dropping a check, swapping two stages or changing a literal
changes a generated constant and breaks a named side condition of props/C14.v."""
import os
import re
import sys

sys.path.insert(0, os.path.dirname(os.path.abspath(__file__)))
from rustlex import lex, match_group, find_seq, find_all_seq, body_after  # noqa

REPO = os.environ.get("VERIF_REPO", "/repo")
SRC = os.path.join(REPO, "yarel", "src")


def toks_of(name):
    with open(os.path.join(SRC, name)) as fh:
        return lex(fh.read())


def fn_body(toks, name):
    i = find_seq(toks, ["fn", name])
    if i < 0:
        raise ValueError("fn %s not found" % name)
    return body_after(toks, i)


def rust_str(tok_text):
    s = tok_text
    if s.startswith("b"):
        s = s[1:]
    s = s[1:-1]
    out = []
    i = 0
    while i < len(s):
        if s[i] == "\\" and i + 1 < len(s):
            c = s[i + 1]
            out.append({"n": "\n", "t": "\t", "\\": "\\", '"': '"', "'": "'", "0": "\0"}.get(c, c))
            i += 2
        else:
            out.append(s[i])
            i += 1
    return "".join(out)


def coq_str(s):
    if not all(32 <= ord(c) < 127 for c in s):
        raise ValueError("non printable literal %r" % s)
    return '"%s"' % s.replace('"', '""')


def coq_list(l):
    return "[" + "; ".join(coq_str(x) for x in l) + "]"


def first_str(toks, lo, hi):
    for j in range(lo, hi):
        if toks[j].kind == "str":
            return rust_str(toks[j].text)
    return None


def texts(toks, lo, hi):
    return [t.text for t in toks[lo:hi]]


def contains(toks, lo, hi, seq):
    return find_seq(toks, seq, lo, hi) >= 0


def fn_ranges(toks):
    """(name, open, close) of every `fn name ... { ... }` (a declaration without body - a trait item - is skipped)"""
    res = []
    for i in range(len(toks) - 2):
        if toks[i].text == "fn" and toks[i + 1].kind == "id":
            j = i + 2
            while j < len(toks) and toks[j].text not in ("{", ";"):
                if toks[j].text in ("(", "[") :
                    j = match_group(toks, j)
                j += 1
            if j < len(toks) and toks[j].text == "{":
                res.append((toks[i + 1].text, j, match_group(toks, j)))
    return res


def enclosing_fns(toks, ranges, seq):
    """names of the functions (innermost, in source order, without repetition) whose body contains the token sequence"""
    out = []
    for i in find_all_seq(toks, seq):
        best = None
        for (nm, o, c) in ranges:
            if o < i < c and (best is None or o > best[1]):
                best = (nm, o, c)
        nm = best[0] if best else "<top level>"
        if nm not in out:
            out.append(nm)
    return out


def gen_frame_switch(vm, info):
    """round 7: WHERE the registers that say "which code is running" are written.  Vm.active_module must follow every change
    of the running frame: the only writer besides reset is load_frame, every function that changes the top frame (push, pop,
    truncate, switch of the running fiber) calls load_frame afterwards, and nobody restores active_chunk / ip by hand
    (a hand-made restore that forgets active_module is exactly the class of the seeded changes C14-6/2 and C14-7/2)."""
    rg = fn_ranges(vm)
    sites = [
        ("active_module=", enclosing_fns(vm, rg, ["self", ".", "active_module", "="])),
        ("active_chunk=", enclosing_fns(vm, rg, ["self", ".", "active_chunk", "="])),
        ("fiber.replace", enclosing_fns(vm, rg, ["self", ".", "fiber", ".", "replace", "("])),
        ("fiber=", enclosing_fns(vm, rg, ["self", ".", "fiber", "="])),
        ("unsafe_fiber=", enclosing_fns(vm, rg, ["self", ".", "unsafe_fiber", "="])),
        ("frames.pop", enclosing_fns(vm, rg, ["frames", ".", "pop", "("])),
        ("frames.truncate", enclosing_fns(vm, rg, ["frames", ".", "truncate", "("])),
        ("push_call_frame", enclosing_fns(vm, rg, [".", "push_call_frame", "("])),
        ("load_frame()", enclosing_fns(vm, rg, ["self", ".", "load_frame", "("])),
        ("load_fiber()", enclosing_fns(vm, rg, ["self", ".", "load_fiber", "("])),
        ("unload_fiber()", enclosing_fns(vm, rg, ["self", ".", "unload_fiber", "("])),
    ]
    info["frame_switch_sites"] = [[k, v] for k, v in sites]
    # in the two functions that switch the running fiber: load_frame is called after the switch, unconditionally (directly
    # in the function's outermost block), and nothing returns Ok in between
    ok = True
    for f in ("load_fiber", "unload_fiber"):
        try:
            o, c = fn_body(vm, f)
        except ValueError:
            ok = False
            continue
        sw = find_seq(vm, ["self", ".", "fiber", ".", "replace", "("], o, c)
        lf = find_all_seq(vm, ["self", ".", "load_frame", "(", ")", ";"], o, c)
        if sw < 0 or not lf:
            ok = False
            continue
        last = lf[-1]
        depth = 0
        for j in range(o + 1, last):
            if vm[j].text == "{":
                depth += 1
            elif vm[j].text == "}":
                depth -= 1
        ok = ok and last > sw and depth == 0 and not contains(vm, sw, last, ["return", "Ok", "("]) \
            and not contains(vm, sw, last, ["Ok", "(", "(", ")", ")"])
    info["fiber_switch_then_loads"] = bool(ok)
    # return_impl: the branch for a finished fiber hands back through unload_fiber; the ordinary branch calls load_frame
    # directly in the function's outermost block
    o, c = fn_body(vm, "return_impl")
    fin = find_seq(vm, ["if", "self", ".", "active_fiber", "(", ")", ".", "has_finished", "(", ")", "{"], o, c)
    rok = False
    if fin >= 0:
        fo, fc = body_after(vm, fin)
        lf = find_seq(vm, ["self", ".", "load_frame", "(", ")", ";"], fc, c)
        depth = 0
        for j in range(o + 1, lf if lf >= 0 else o + 1):
            if vm[j].text == "{":
                depth += 1
            elif vm[j].text == "}":
                depth -= 1
        rok = (contains(vm, fo, fc, ["self", ".", "unload_fiber", "("]) and lf >= 0 and depth == 0
               and find_seq(vm, ["frames", ".", "pop", "("], o, c) < fin)
    info["return_finished_fiber_unloads"] = bool(rok)


def gen_import_arms(man):
    vm = toks_of("vm.rs")
    info = {}
    gen_frame_switch(vm, info)
    o, c = fn_body(vm, "start_import_impl")
    stages = {
        "registry": find_seq(vm, ["self", ".", "modules", ".", "get", "("], o, c),
        "loader": find_seq(vm, ["self", ".", "module_loader"], o, c),
        "compile": find_seq(vm, ["compiler", "::", "compile", "("], o, c),
        "register": find_seq(vm, ["self", ".", "module", "("], o, c),
        "call": find_seq(vm, ["self", ".", "call_value", "("], o, c),
        "builtins": find_seq(vm, ["self", ".", "init_built_in_globals", "("], o, c),
    }
    order = [k for k, v in sorted(stages.items(), key=lambda kv: kv[1]) if v >= 0]
    order += ["missing_" + k for k, v in stages.items() if v < 0]
    info["import_order"] = order
    # registry-hit branch
    hit = find_seq(vm, ["if", "let", "Some", "("], o, c)
    cyc_fmt, cyc_kind, hit_shape, hit_returns = "?", "?", False, False
    if hit >= 0 and stages["registry"] > hit:
        ho, hc = body_after(vm, stages["registry"])
        k = find_seq(vm, ["if"], ho + 1, hc)
        if k >= 0:
            bo, bc = body_after(vm, k)
            cond = texts(vm, k + 1, bo)
            then_pushes = contains(vm, bo, bc, ["Value", "::", "ObjModule"]) and contains(vm, bo, bc, ["Value", "::", "None"])
            has_else = bc + 1 < hc and vm[bc + 1].text == "else"
            if has_else:
                eo, ec = body_after(vm, bc + 1)
                e = find_seq(vm, ["error!", "("], eo, ec)
                if e >= 0:
                    ee = match_group(vm, e + 1)
                    cyc_fmt = first_str(vm, e, ee) or "?"
                    kk = find_seq(vm, ["ErrorKind", "::"], e, ee)
                    cyc_kind = vm[kk + 2].text if kk >= 0 else "?"
                    handled = contains(vm, ee, ec, ["self", ".", "try_handle_error", "("])
                    hit_shape = (len(cond) >= 3 and cond[-1] == "imported" and cond[-2] == "." and "!" not in cond
                                 and then_pushes and handled)
            hit_returns = contains(vm, bc, hc, ["return", "Ok", "("])
    # 367eb72: `else if self.is_loading_module(module)` guards the cycle error; a non-loading leftover is removed
    checks_loading = False
    if hit >= 0 and stages["registry"] > hit:
        ho, hc = body_after(vm, stages["registry"])
        ei = find_seq(vm, ["else", "if", "self", ".", "is_loading_module", "(", "module", ")"], ho, hc)
        rm = find_seq(vm, ["self", ".", "modules", ".", "remove", "(", "&", "path", ")"], ho, hc)
        if ei >= 0 and rm > ei:
            eo, ec = body_after(vm, ei)
            checks_loading = (contains(vm, eo, ec, ["error!", "("]) and contains(vm, eo, ec, ["return", "Ok", "("])
                              and rm > ec and stages["loader"] > rm)
        elif ei < 0 and rm < 0:
            checks_loading = False
        else:
            raise ValueError("registry-hit branch of start_import_impl has an unrecognised shape")
    info["registry_hit_checks_loading"] = bool(checks_loading)
    loading_shape = True
    if checks_loading:
        ol, cl = fn_body(vm, "is_loading_module")
        loading_shape = (contains(vm, ol, cl, ["closure", ".", "module", "==", "module"])
                         and contains(vm, ol, cl, ["closure", ".", "function", ".", "name", ".", "is_empty", "(", ")"])
                         and contains(vm, ol, cl, [".", "frames"]) and contains(vm, ol, cl, [".", "any", "("]))
    info["is_loading_is_body_frame_of_module"] = bool(loading_shape)
    # does is_loading_module walk the WHOLE caller chain of fibers?  loop `while let Some(..) = fiber { .. fiber = <..>.caller; }`
    # starting at self.fiber  -> true;  no loop, `.caller` consulted a fixed number of times -> false;  anything else: unknown
    walks = False
    if checks_loading:
        ol, cl = fn_body(vm, "is_loading_module")
        w = find_seq(vm, ["while", "let", "Some", "("], ol, cl)
        ncaller = len(find_all_seq(vm, [".", "caller"], ol, cl))
        has_loop = any(contains(vm, ol, cl, [k]) for k in ("while", "loop", "for"))
        if w >= 0:
            wo, wc = body_after(vm, w)
            var = vm[match_group(vm, w + 3) + 2].text            # while let Some(x) = <var>
            step = find_seq(vm, [var, "="], wo, wc)
            e = step
            while e >= 0 and vm[e].text != ";":
                e += 1
            steps_to_caller = step >= 0 and texts(vm, step + 2, e)[-2:] == [".", "caller"]
            ret_true = contains(vm, wo, wc, ["return", "true"])
            starts_at_fiber = contains(vm, ol, w, ["self", ".", "fiber"])
            if steps_to_caller and ret_true and starts_at_fiber and ncaller == 1:
                walks = True
            else:
                raise ValueError("is_loading_module: loop of unrecognised shape")
        elif not has_loop and ncaller >= 1:
            walks = False
        elif not has_loop and ncaller == 0:
            walks = False
        else:
            raise ValueError("is_loading_module: unrecognised shape")
    info["loading_walks_chain"] = bool(walks)
    # 367eb72: built-ins only `if self.active_module == module`
    guarded = False
    if stages["builtins"] >= 0 and stages["call"] >= 0:
        g = find_seq(vm, ["if", "self", ".", "active_module", "==", "module", "{"], stages["call"], c)
        if g >= 0:
            go, gc_ = body_after(vm, g)
            guarded = go < stages["builtins"] < gc_
    info["builtins_init_guarded"] = bool(guarded)
    info["cyc_fmt"], info["cyc_kind"] = cyc_fmt, cyc_kind
    info["hit_imported_pushes_else_error"] = bool(hit_shape and hit_returns)
    # loader error is thrown as is
    lo_ok = False
    if stages["loader"] >= 0:
        m = stages["loader"]
        while m > o and vm[m].text != "match":
            m -= 1
        mo, mc = body_after(vm, m)
        a = find_seq(vm, ["Err", "(", "e", ")", "=>"], mo, mc)
        if a < 0:
            a = find_seq(vm, ["Err", "("], mo, mc)
        lo_ok = a >= 0 and contains(vm, a, mc, ["self", ".", "try_handle_error", "(", vm[a + 2].text, ")"])
    info["loader_error_thrown_as_is"] = bool(lo_ok)
    # compile failure
    comp_head, comp_kind, comp_line = "?", "?", "?"
    if stages["compile"] >= 0:
        m = stages["compile"]
        while m > o and vm[m].text != "match":
            m -= 1
        mo, mc = body_after(vm, m)
        e = find_seq(vm, ["error!", "("], mo, mc)
        if e >= 0:
            ee = match_group(vm, e + 1)
            comp_head = first_str(vm, e, ee) or "?"
            kk = find_seq(vm, ["ErrorKind", "::"], e, ee)
            comp_kind = vm[kk + 2].text if kk >= 0 else "?"
            f = find_seq(vm, ["format!", "("], ee, mc)
            if f >= 0 and contains(vm, ee, mc, ["add_message", "("]) and contains(vm, ee, mc, ["for"]):
                comp_line = first_str(vm, f, match_group(vm, f + 1)) or "?"
            if not contains(vm, ee, mc, ["self", ".", "try_handle_error", "("]):
                comp_kind = "not_handled"
    info["comp_head"], info["comp_kind"], info["comp_line_fmt"] = comp_head, comp_kind, comp_line
    # which module gets the built-ins: derived from self.active_module AFTER call_value
    target = "?"
    if stages["builtins"] >= 0 and stages["call"] >= 0:
        b = stages["builtins"]
        be = match_group(vm, b + 3)
        arg = [t for t in texts(vm, b + 4, be) if t not in ("&",)]
        if len(arg) == 1:
            d = find_seq(vm, ["let", arg[0], "="], o, c)
            if d >= 0:
                e = d
                while vm[e].text != ";":
                    e += 1
                rhs = texts(vm, d + 3, e)
                if rhs[:3] == ["self", ".", "active_module"] and rhs[-1] == "path" and d > stages["call"]:
                    target = "active_module"
                elif rhs[:3] == ["self", ".", "active_module"]:
                    target = "active_module_before_call"
                else:
                    target = " ".join(rhs)
        elif arg[:1] == ["path"] or "path" in arg:
            target = "path"
    info["builtins_target"] = target
    # the new module object is what the body's closure gets
    info["body_closure_gets_new_module"] = bool(
        stages["register"] >= 0 and find_seq(vm, ["let", "module", "=", "self", ".", "module", "("], o, c) >= 0
        and find_seq(vm, ["new_root_obj_closure", "(", "function", ".", "as_gc", "(", ")", ",", "module", ")"], o, c) >= 0)
    # finish_import_impl
    o2, c2 = fn_body(vm, "finish_import_impl")
    info["finish_sets_imported"] = contains(vm, o2, c2, [".", "imported", "=", "true"])
    # module(): get or create
    o3, c3 = fn_body(vm, "module")
    info["module_get_or_create"] = (contains(vm, o3, c3, ["self", ".", "modules", ".", "get", "("])
                                    and contains(vm, o3, c3, ["self", ".", "modules", ".", "insert", "("])
                                    and find_seq(vm, ["self", ".", "modules", ".", "get", "("], o3, c3)
                                    < find_seq(vm, ["self", ".", "modules", ".", "insert", "("], o3, c3))
    # init_built_in_globals names
    o4, c4 = fn_body(vm, "init_built_in_globals")
    # every define_native / set_global call of init_built_in_globals: (position, name, module argument)
    installs = []
    sig = vm[o4 - 1]
    for call in ("define_native", "set_global"):
        for i in find_all_seq(vm, ["self", ".", call, "("], o4, c4):
            e = match_group(vm, i + 3)
            args = __import__("rustlex").split_top(vm, i + 4, e)
            if len(args) < 2:
                raise ValueError("init_built_in_globals: call with < 2 arguments")
            target = " ".join(texts(vm, *args[0]))
            nm_toks = vm[args[1][0]:args[1][1]]
            if len(nm_toks) != 1 or nm_toks[0].kind != "str":
                raise ValueError("init_built_in_globals: the name of an installed global is not a string literal")
            if target.startswith('"'):
                target = "literal " + rust_str(target)
            installs.append((i, rust_str(nm_toks[0].text), target))
    installs.sort()
    info["builtin_installs"] = [[n, t] for (_, n, t) in installs]
    # the names every module gets = those installed into the function's module argument
    info["builtin_names"] = [n for (_, n, t) in installs if t == "module_path"]
    info["builtin_misinstalled"] = [[n, t] for (_, n, t) in installs if t != "module_path"]
    # load_frame
    o5, c5 = fn_body(vm, "load_frame")
    lf = find_seq(vm, ["self", ".", "active_module", "="], o5, c5)
    lf_ok = False
    if lf >= 0:
        var = vm[lf + 4].text
        lf_ok = contains(vm, o5, c5, ["current_frame", ".", "closure", ".", "module"]) and vm[lf + 5].text == ";" and var != "self"
    info["load_frame_sets_active_from_closure"] = bool(lf_ok)
    # call_closure / return_impl / unwind_stack
    o6, c6 = fn_body(vm, "call_closure")
    pc = find_seq(vm, ["push_call_frame", "("], o6, c6)
    info["call_pushes_then_loads"] = pc >= 0 and find_seq(vm, ["self", ".", "load_frame", "("], pc, c6) >= 0
    info["frame_limit_eq_frames_max"] = contains(vm, o6, c6, ["frames", ".", "len", "(", ")", "==", "common", "::", "FRAMES_MAX"])
    o7, c7 = fn_body(vm, "return_impl")
    fp = find_seq(vm, ["frames", ".", "pop", "("], o7, c7)
    info["return_pops_then_loads"] = fp >= 0 and find_seq(vm, ["self", ".", "load_frame", "("], fp, c7) >= 0
    o8, c8 = fn_body(vm, "unwind_stack")
    ft = find_seq(vm, ["frames", ".", "truncate", "("], o8, c8)
    info["unwind_truncates_then_loads"] = ft >= 0 and find_seq(vm, ["self", ".", "load_frame", "("], ft, c8) >= 0
    # globals use active_module
    ok = True
    for f in ("get_global_impl", "define_global_impl", "set_global_impl"):
        oo, cc = fn_body(vm, f)
        ok = ok and contains(vm, oo, cc, ["active_module"]) and not contains(vm, oo, cc, ["self", ".", "module", "("]) \
            and not contains(vm, oo, cc, ["modules"])
    info["globals_use_active_module"] = bool(ok)
    o9, c9 = fn_body(vm, "closure_impl")
    info["closure_takes_active_module"] = contains(vm, o9, c9, ["new_root_obj_closure", "(", "function", ",", "self", ".", "active_module", ")"])
    # the built-in file loader: every failure of fs::read_to_string is reported with one error kind and one format
    od, cd = fn_body(vm, "default_read_module_source")
    rd = find_seq(vm, ["fs", "::", "read_to_string", "("], od, cd)
    kinds, reasons, default_reason = [], [], "?"
    if rd >= 0:
        j = rd
        while j < cd:
            if vm[j].text == "ErrorKind" and vm[j + 1].text == "::":
                is_io = j >= 2 and vm[j - 1].text == "::" and vm[j - 2].text == "io"
                if is_io:
                    if vm[j + 3].text == "=>" and vm[j + 4].kind == "str":
                        reasons.append((vm[j + 2].text, rust_str(vm[j + 4].text)))
                elif vm[j + 2].text not in kinds:
                    kinds.append(vm[j + 2].text)
            if vm[j].text == "_" and vm[j + 1].text == "=>":
                default_reason = rust_str(vm[j + 2].text) if vm[j + 2].kind == "str" else "<not a literal>"
            j += 1
    info["default_loader_read_error_kinds"] = kinds
    info["default_loader_reasons"] = reasons
    info["default_loader_default_reason"] = default_reason
    fmts = [rust_str(vm[j].text) for j in range(rd if rd >= 0 else od, cd) if vm[j].kind == "str" and "{}" in vm[j].text]
    info["default_loader_fmts"] = fmts
    we = find_seq(vm, ["with_extension", "("], od, cd)
    info["default_loader_extension"] = rust_str(vm[we + 2].text) if we >= 0 and vm[we + 2].kind == "str" else "?"
    # reset keeps "main"
    oa, ca = fn_body(vm, "reset")
    r = find_seq(vm, ["self", ".", "modules", ".", "retain", "("], oa, ca)
    info["reset_keeps"] = first_str(vm, r, match_group(vm, r + 5)) if r >= 0 else "?"
    ob, cb = fn_body(vm, "with_built_ins")
    info["with_built_ins_module"] = first_str(vm, ob, cb) or "?"
    # compiler.rs
    comp = toks_of("compiler.rs")
    oc, cc = fn_body(comp, "import_statement")
    m = find_seq(comp, ["path", ".", "source", "=="], oc, cc)
    info["import_main_literal"] = rust_str(comp[m + 4].text) if m >= 0 and comp[m + 4].kind == "str" else "?"
    e = find_seq(comp, ["self", ".", "error", "("], m if m >= 0 else oc, cc)
    info["import_main_msg"] = first_str(comp, e, match_group(comp, e + 3)) if e >= 0 else "?"
    info["default_alias_file_name"] = contains(comp, oc, cc, ["file_name", "(", ")"])
    si = find_seq(comp, ["OpCode", "::", "StartImport"], oc, cc)
    fi = find_seq(comp, ["OpCode", "::", "FinishImport"], oc, cc)
    dv = find_seq(comp, ["self", ".", "define_variable", "("], oc, cc)
    info["import_emits_start_finish_define"] = 0 <= si < fi < dv
    op, cp = fn_body(comp, "new")
    pn = find_seq(comp, ["module_path", ".", "unwrap_or", "("])
    info["default_module_path"] = rust_str(comp[pn + 4].text) if pn >= 0 and comp[pn + 4].kind == "str" else "?"
    # function names: is_loading_module takes a frame whose function has an EMPTY name for a module body.  Every
    # `new_compiler(kind, name, ..)` site: the script (name `empty`), `function` (name = the identifier token just
    # consumed by its callers), `initialiser` (name = an attribute argument, an identifier token), `lambda`
    # (name formatted "lambda-{}")
    sites = find_all_seq(comp, [".", "new_compiler", "("])
    kinds = []
    for i in sites:
        e = match_group(comp, i + 2)
        args = [texts(comp, a, b) for a, b in __import__("rustlex").split_top(comp, i + 3, e)]
        kinds.append((args[0], args[1] if len(args) > 1 else []))
    script_sites = [k for k in kinds if k[0] == ["FunctionKind", "::", "Script"]]
    info["new_compiler_sites"] = len(sites)
    only_script_empty = (len(script_sites) == 1 and script_sites[0][1] == ["empty"]
                         and all(k[1] == ["name"] for k in kinds if k not in script_sites))
    # `empty` is the interned "" ; `name` of the other sites
    only_script_empty = only_script_empty and contains(comp, 0, len(comp), ["let", "empty", "=", "vm", ".", "new_gc_obj_string", "(", '""', ")"])
    lo, lc = fn_body(comp, "lambda")
    lf = find_seq(comp, ["format!", "("], lo, lc)
    lam_fmt = first_str(comp, lf, match_group(comp, lf + 1)) if lf >= 0 else "?"
    lam_ok = lf >= 0 and contains(comp, lo, lc, ["let", "name", "="]) and contains(comp, lo, lc, ["new_gc_obj_string", "(", "format!"])
    fo, fc_ = fn_body(comp, "function")
    fun_ok = contains(comp, fo, fc_, ["let", "name", "=", "self", ".", "previous", ".", "source", ".", "clone", "(", ")"])
    callers_ok = True
    for i in find_all_seq(comp, ["self", ".", "function", "("]):
        # the enclosing fn consumed an identifier (directly or through parse_variable) before
        j = i
        while j > 0 and not (comp[j].text == "fn" and comp[j + 1].kind == "id" and comp[j + 2].text == "("):
            j -= 1
        callers_ok = callers_ok and (contains(comp, j, i, ["consume", "(", "TokenKind", "::", "Identifier"])
                                     or contains(comp, j, i, ["self", ".", "parse_variable", "("]))
    pv0, pv1 = fn_body(comp, "parse_variable")
    callers_ok = callers_ok and contains(comp, pv0, pv1, ["consume", "(", "TokenKind", "::", "Identifier"])
    io, ic = fn_body(comp, "initialiser")
    init_ok = contains(comp, io, ic, ["name", ".", "source", ".", "as_str", "(", ")"])
    ao, ac = fn_body(comp, "attribute")
    init_ok = init_ok and contains(comp, ao, ac, ["match_token", "(", "TokenKind", "::", "Identifier", ")"]) \
        and contains(comp, ao, ac, ["arguments", ".", "push", "(", "self", ".", "previous", ".", "clone", "(", ")", ")"])
    info["lambda_name_fmt"] = lam_fmt or "?"
    info["only_script_has_empty_name"] = bool(only_script_empty and lam_ok and fun_ok and callers_ok and init_ok
                                              and (lam_fmt or "").replace("{}", "") != "")
    # core.yl classes
    with open(os.path.join(SRC, "core.yl")) as fh:
        core = fh.read()
    info["core_class_names"] = re.findall(r"^class\s+([A-Za-z_]\w*)", core, re.M)
    # round 9: census of the import path - every `self.<name>` that start_import_impl / finish_import_impl /
    # init_built_in_globals mention (fields read or written, methods called) and the number of `error!(` / `try_handle_error(` /
    # `return` sites of start_import_impl.  Modules.v has no state beyond registry, objects, frames, handlers and `active`: a new
    # counter, cache or flag consulted by an import, a new refusal arm, a look into another module's globals while a module is
    # given its built-ins - each one changes this table.
    census, exits = [], []
    for f in ("start_import_impl", "finish_import_impl", "init_built_in_globals"):
        fo, fc = fn_body(vm, f)
        t = texts(vm, fo, fc)
        census.append((f, sorted({t[i + 2] for i in range(len(t) - 2) if t[i] == "self" and t[i + 1] == "."})))
        if f == "start_import_impl":
            exits = [str(sum(1 for i in range(len(t) - 1) if t[i] == "error!" and t[i + 1] == "(")),
                     str(sum(1 for i in range(len(t) - 1) if t[i] == "try_handle_error" and t[i + 1] == "(")),
                     str(t.count("return"))]
    info["import_census"] = [[f, n] for f, n in census]
    info["import_exit_counts"] = exits
    man["c14"] = info

    b = lambda v: "true" if v else "false"
    L = ["(* GENERATED by translator/translate_c14.py from vm.rs, compiler.rs, core.yl - do not edit *)",
         "From Coq Require Import List String NArith.", "Import ListNotations.", "Open Scope string_scope.", ""]
    L.append("Definition gen_import_order : list string := %s." % coq_list(info["import_order"]))
    L.append("Definition gen_cyc_fmt : string := %s." % coq_str(info["cyc_fmt"]))
    L.append("Definition gen_cyc_kind : string := %s." % coq_str(info["cyc_kind"]))
    L.append("Definition gen_hit_imported_pushes_else_error : bool := %s." % b(info["hit_imported_pushes_else_error"]))
    L.append("Definition gen_loader_error_thrown_as_is : bool := %s." % b(info["loader_error_thrown_as_is"]))
    L.append("Definition gen_registry_hit_checks_loading : bool := %s." % b(info["registry_hit_checks_loading"]))
    L.append("Definition gen_is_loading_is_body_frame_of_module : bool := %s." % b(info["is_loading_is_body_frame_of_module"]))
    L.append("Definition gen_builtins_init_guarded : bool := %s." % b(info["builtins_init_guarded"]))
    L.append("Definition gen_loading_walks_chain : bool := %s." % b(info["loading_walks_chain"]))
    L.append("Definition gen_comp_head : string := %s." % coq_str(info["comp_head"]))
    L.append("Definition gen_comp_kind : string := %s." % coq_str(info["comp_kind"]))
    L.append("Definition gen_comp_line_fmt : string := %s." % coq_str(info["comp_line_fmt"]))
    L.append("Definition gen_builtins_target : string := %s." % coq_str(info["builtins_target"]))
    L.append("Definition gen_body_closure_gets_new_module : bool := %s." % b(info["body_closure_gets_new_module"]))
    L.append("Definition gen_finish_sets_imported : bool := %s." % b(info["finish_sets_imported"]))
    L.append("Definition gen_module_get_or_create : bool := %s." % b(info["module_get_or_create"]))
    L.append("Definition gen_builtin_names : list string := %s." % coq_list(info["builtin_names"]))
    L.append("Definition gen_builtin_installs : list (string * string) := [%s]." % "; ".join("(%s, %s)" % (coq_str(n), coq_str(t)) for n, t in info["builtin_installs"]))
    L.append("Definition gen_builtin_misinstalled : list (string * string) := [%s]." % "; ".join("(%s, %s)" % (coq_str(n), coq_str(t)) for n, t in info["builtin_misinstalled"]))
    L.append("Definition gen_core_class_names : list string := %s." % coq_list(info["core_class_names"]))
    L.append("Definition gen_load_frame_sets_active_from_closure : bool := %s." % b(info["load_frame_sets_active_from_closure"]))
    L.append("Definition gen_call_pushes_then_loads : bool := %s." % b(info["call_pushes_then_loads"]))
    L.append("Definition gen_frame_limit_eq_frames_max : bool := %s." % b(info["frame_limit_eq_frames_max"]))
    L.append("Definition gen_return_pops_then_loads : bool := %s." % b(info["return_pops_then_loads"]))
    L.append("Definition gen_unwind_truncates_then_loads : bool := %s." % b(info["unwind_truncates_then_loads"]))
    L.append("Definition gen_globals_use_active_module : bool := %s." % b(info["globals_use_active_module"]))
    L.append("Definition gen_closure_takes_active_module : bool := %s." % b(info["closure_takes_active_module"]))
    L.append("Definition gen_frame_switch_sites : list (string * list string) := [%s]."
             % "; ".join("(%s, %s)" % (coq_str(k), coq_list(v)) for k, v in info["frame_switch_sites"]))
    L.append("Definition gen_fiber_switch_then_loads : bool := %s." % b(info["fiber_switch_then_loads"]))
    L.append("Definition gen_return_finished_fiber_unloads : bool := %s." % b(info["return_finished_fiber_unloads"]))
    L.append("Definition gen_default_loader_read_error_kinds : list string := %s." % coq_list(info["default_loader_read_error_kinds"]))
    L.append("Definition gen_default_loader_reasons : list (string * string) := [%s]." % "; ".join("(%s, %s)" % (coq_str(n), coq_str(t)) for n, t in info["default_loader_reasons"]))
    L.append("Definition gen_default_loader_default_reason : string := %s." % coq_str(info["default_loader_default_reason"]))
    L.append("Definition gen_default_loader_fmts : list string := %s." % coq_list(info["default_loader_fmts"]))
    L.append("Definition gen_default_loader_extension : string := %s." % coq_str(info["default_loader_extension"]))
    L.append("Definition gen_reset_keeps : string := %s." % coq_str(info["reset_keeps"] or "?"))
    L.append("Definition gen_with_built_ins_module : string := %s." % coq_str(info["with_built_ins_module"]))
    L.append("Definition gen_import_main_literal : string := %s." % coq_str(info["import_main_literal"]))
    L.append("Definition gen_import_main_msg : string := %s." % coq_str(info["import_main_msg"] or "?"))
    L.append("Definition gen_default_alias_file_name : bool := %s." % b(info["default_alias_file_name"]))
    L.append("Definition gen_import_emits_start_finish_define : bool := %s." % b(info["import_emits_start_finish_define"]))
    L.append("Definition gen_default_module_path : string := %s." % coq_str(info["default_module_path"]))
    L.append("Definition gen_lambda_name_fmt : string := %s." % coq_str(info["lambda_name_fmt"]))
    L.append("Definition gen_only_script_has_empty_name : bool := %s." % b(info["only_script_has_empty_name"]))
    L.append("Definition gen_import_census : list (string * list string) := [%s]."
             % "; ".join("(%s, %s)" % (coq_str(k), coq_list(v)) for k, v in info["import_census"]))
    L.append("Definition gen_import_exit_counts : list string := %s." % coq_list(info["import_exit_counts"]))
    return "\n".join(L) + "\n"


GENERATORS = {"ImportArms.v": gen_import_arms}

if __name__ == "__main__":
    print(gen_import_arms({}))
