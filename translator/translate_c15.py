"""C15: which state of `struct Vm` outlives a run, read from the CURRENT vm.rs at token level and written to
coq/gen/VmFields.v.  YV.Reuse hard-wires the same lists with a ROLE for every field (who re-initialises it, or
why it may carry over); props/C15.v compares the two by computation, so that

  * a NEW field of `struct Vm` breaks `C15_side_fields_classified` (someone must decide whether it carries state
    from one run to the next),
  * dropping one of the assignments `execute` performs before `run()` (`ip`, `fiber`, `handling_exception`)
    breaks `C15_side_execute_resets`,
  * `execute` no longer creating its fiber with `new_root_obj_fiber` + `load_fiber` breaks `C15_side_fresh_fiber`,
  * a change of what `reset()` / `reset_stack()` / `runtime_error()` touch breaks the corresponding side condition.

Renaming locals, re-ordering independent statements or adding comments keeps the lists."""
import os
import sys

sys.path.insert(0, os.path.dirname(os.path.abspath(__file__)))
from rustlex import lex, match_group, find_seq, find_all_seq, body_after, split_top  # noqa

REPO = os.environ.get("VERIF_REPO", "/repo")
SRC = os.path.join(REPO, "yarel", "src")


def toks_of(name):
    with open(os.path.join(SRC, name)) as fh:
        return lex(fh.read())


def struct_fields(toks, name):
    i = find_seq(toks, ["struct", name, "{"])
    if i < 0:
        raise ValueError("struct %s not found" % name)
    o, c = i + 2, match_group(toks, i + 2)
    fields = []
    # pieces between top-level commas; a comma inside a generic argument list `<A, B>` does not end a field
    pieces = []
    angle = 0
    for lo, hi in split_top(toks, o + 1, c):
        if angle > 0 and pieces:
            pieces[-1] = (pieces[-1][0], hi)
        else:
            pieces.append((lo, hi))
        for t in toks[lo:hi]:
            if t.kind == "op":
                angle += {"<": 1, ">": -1, ">>": -2, "<<": 2}.get(t.text, 0)
    for lo, hi in pieces:
        # [#[attr]] [pub [(crate)]] name : type
        j = lo
        while j < hi and toks[j].text == "#":
            j = match_group(toks, j + 1) + 1
        if j < hi and toks[j].text == "pub":
            j += 1
            if j < hi and toks[j].text == "(":
                j = match_group(toks, j) + 1
        if j + 1 < hi and toks[j].kind == "id" and toks[j + 1].text == ":":
            fields.append(toks[j].text)
        elif j < hi:
            fields.append("?unknown?")
    return fields


def fn_body(toks, name, start=0):
    """(open, close) of the first `fn name` with a body at or after start"""
    for i in find_all_seq(toks, ["fn", name], start):
        j = i + 2
        while j < len(toks) and toks[j].text not in ("{", ";"):
            if toks[j].text in ("(", "<", "["):
                j = match_group(toks, j) if toks[j].text != "<" else j
            j += 1
        if j < len(toks) and toks[j].text == "{":
            return j, match_group(toks, j)
    raise ValueError("fn %s not found" % name)


def self_assignments(toks, lo, hi):
    """names X of top-level-or-nested statements `self . X = …` (not ==, not `self.X.y = `) in order"""
    res = []
    for j in range(lo, hi - 3):
        if toks[j].text == "self" and toks[j + 1].text == "." and toks[j + 2].kind == "id" and toks[j + 3].text == "=" \
                and (j == lo or toks[j - 1].text in (";", "{", "}")):
            res.append(toks[j + 2].text)
    return res


def self_calls(toks, lo, hi):
    """names m of `self . m (` in order"""
    return [toks[j + 2].text for j in range(lo, hi - 3)
            if toks[j].text == "self" and toks[j + 1].text == "." and toks[j + 2].kind == "id" and toks[j + 3].text == "("]


def self_field_calls(toks, lo, hi):
    """(field, method) of `self . field . method (` in order"""
    return [(toks[j + 2].text, toks[j + 4].text) for j in range(lo, hi - 5)
            if toks[j].text == "self" and toks[j + 1].text == "." and toks[j + 2].kind == "id" and toks[j + 3].text == "."
            and toks[j + 4].kind == "id" and toks[j + 5].text == "("]


def q(s):
    return '"%s"' % s.replace('"', '""')


def coq_list(l):
    return "[" + "; ".join(q(x) for x in l) + "]"


def gen_vmfields(man):
    vm = toks_of("vm.rs")
    fields = struct_fields(vm, "Vm")
    impl = find_seq(vm, ["impl", "Vm", "{"])
    if impl < 0:
        raise ValueError("impl Vm not found")
    # execute: what is assigned / called before the call of run()
    o, c = fn_body(vm, "execute", impl)
    run_at = find_seq(vm, ["self", ".", "run", "("], o, c)
    if run_at < 0:
        raise ValueError("execute: no call of self.run()")
    ex_assign = self_assignments(vm, o + 1, run_at)
    ex_calls = self_calls(vm, o + 1, run_at)
    # the error arm of execute hands the error to runtime_error
    ex_err = "runtime_error" in self_calls(vm, run_at, c)
    # the fiber loaded by execute is the one it has just created from the closure of the function to run
    fresh = False
    nf = find_seq(vm, ["self", ".", "new_root_obj_fiber", "("], o, run_at)
    lf = find_seq(vm, ["self", ".", "load_fiber", "("], o, run_at)
    if nf >= 0 and lf > nf:
        # `let X = self.new_root_obj_fiber(...)` … `self.load_fiber(X.as_gc(), None)`
        k = nf
        while k > o and vm[k].text != "let":
            k -= 1
        var = vm[k + 1].text if vm[k].text == "let" else None
        fresh = var is not None and vm[lf + 4].text == var and vm[k + 2].text == "="
    # load_fiber / load_frame (called by execute): which Vm fields they (re)assign
    o, c = fn_body(vm, "load_fiber", impl)
    lf_assign = self_assignments(vm, o + 1, c)
    lf_calls = self_calls(vm, o + 1, c)
    # `let caller = self.fiber.replace(…)` assigns self.fiber
    if ("fiber", "replace") in self_field_calls(vm, o + 1, c):
        lf_assign.append("fiber")
    o, c = fn_body(vm, "load_frame", impl)
    lfr_assign = self_assignments(vm, o + 1, c)
    # reset
    o, c = fn_body(vm, "reset", impl)
    rs_assign = self_assignments(vm, o + 1, c)
    rs_calls = self_calls(vm, o + 1, c)
    rs_fcalls = ["%s.%s" % fm for fm in self_field_calls(vm, o + 1, c)]
    # reset_stack: `<x>.F.clear()` for fields F of the failing fiber, and inside the loop over the waiting fibers
    o, c = fn_body(vm, "reset_stack", impl)
    w = find_seq(vm, ["while", "let"], o, c)
    wo, wc = body_after(vm, w) if w >= 0 else (c, c)

    def clears_in(lo, hi):
        return [vm[j + 1].text for j in range(lo, hi - 4)
                if vm[j].text == "." and vm[j + 1].kind == "id" and vm[j + 2].text == "." and vm[j + 3].text == "clear" and vm[j + 4].text == "("]
    waiting_clears = clears_in(wo, wc)
    clears = clears_in(o, wo) + clears_in(wc, c)
    n_close = len(find_all_seq(vm, [".", "close_upvalues", "("], o, c))
    n_take = len(find_all_seq(vm, [".", "caller", ".", "take", "("], o, c))
    walks = w >= 0 and find_seq(vm, [".", "caller"], wo, wc) >= 0
    rst_fiber_only = find_seq(vm, ["self", ".", "fiber"], o, c) >= 0 and not self_assignments(vm, o + 1, c)
    # runtime_error: calls reset_stack, assigns no Vm field
    o, c = fn_body(vm, "runtime_error", impl)
    re_calls = self_calls(vm, o + 1, c)
    re_assign = self_assignments(vm, o + 1, c)
    # define_class_impl takes the pending class definition; declare_class_impl sets it
    o, c = fn_body(vm, "define_class_impl", impl)
    def_takes = ("working_class_def", "take") in self_field_calls(vm, o + 1, c)
    o, c = fn_body(vm, "declare_class_impl", impl)
    decl_sets = "working_class_def" in self_assignments(vm, o + 1, c)
    # start_import_impl: lookup in modules, then the `imported` test; finish_import_impl sets imported
    o, c = fn_body(vm, "start_import_impl", impl)
    imp_lookup = ("modules", "get") in self_field_calls(vm, o + 1, c)
    imp_flag = find_seq(vm, [".", "imported"], o, c) >= 0
    imp_circular = any(t.kind == "str" and "Circular dependency" in t.text for t in vm[o:c])
    # registry-hit branch: "Circular dependency" only under `self.is_loading_module(..)`, otherwise the dead entry is removed
    # (`self.modules.remove(..)`) and the function goes on to load the module (no `return` between the remove and the loader call)
    calls = self_calls(vm, o + 1, c)
    rm = find_seq(vm, ["self", ".", "modules", ".", "remove", "("], o, c)
    ld = find_seq(vm, ["self", ".", "module_loader"], o, c)
    cond = find_seq(vm, ["if", "self", ".", "is_loading_module", "("], o, c)
    msg_at = next((j for j in range(o, c) if vm[j].kind == "str" and "Circular dependency" in vm[j].text), -1)
    guarded = False
    if cond >= 0 and msg_at >= 0:
        bo, bc = body_after(vm, cond)
        guarded = bo < msg_at < bc
    imp_reloads = ("is_loading_module" in calls and guarded and 0 <= rm < ld
                   and not any(vm[j].text == "return" for j in range(rm, ld)))
    try:
        lo_, lc_ = fn_body(vm, "is_loading_module", impl)
        walks_chain = find_seq(vm, [".", "caller"], lo_, lc_) >= 0 and find_seq(vm, [".", "frames"], lo_, lc_) >= 0
    except ValueError:
        walks_chain = False
    o, c = fn_body(vm, "finish_import_impl", impl)
    fin_sets = find_seq(vm, [".", "imported", "=", "true"], o, c) >= 0
    # ObjFiber fields (what a dead fiber may still hold)
    fiber_fields = struct_fields(toks_of("object.rs"), "ObjFiber")
    # the REPL of the CLI: one Vm, interpret per line, no reset in between
    cli = lex(open(os.path.join(REPO, "yarel-cli", "src", "main.rs")).read())
    o, c = fn_body(cli, "repl")
    repl_interprets = find_seq(cli, ["vm", "::", "interpret", "("], o, c) >= 0
    repl_resets = any(cli[j].text == "reset" for j in range(o, c))
    man["c15"] = {"vm_fields": fields, "execute_assigns": ex_assign, "execute_calls": ex_calls, "execute_fresh_fiber": fresh,
                  "reset_assigns": rs_assign, "reset_calls": rs_calls, "reset_field_calls": rs_fcalls,
                  "reset_stack_clears": clears, "runtime_error_calls": re_calls, "fiber_fields": fiber_fields}
    b = lambda x: "true" if x else "false"
    lines = ["(* GENERATED by translator/translate_c15.py from yarel/src/vm.rs, object.rs, yarel-cli/src/main.rs - do not edit *)",
             "From Coq Require Import String List Bool.", "Import ListNotations.", "Open Scope string_scope.", "",
             "(* struct Vm *)",
             "Definition vm_fields_src : list string := %s." % coq_list(fields), "",
             "(* fn execute: `self.X = …` statements and `self.m(…)` calls before `self.run()` *)",
             "Definition execute_assigns_src : list string := %s." % coq_list(ex_assign),
             "Definition execute_calls_src : list string := %s." % coq_list(ex_calls),
             "Definition execute_loads_fresh_fiber_src : bool := %s." % b(fresh),
             "Definition execute_error_arm_calls_runtime_error_src : bool := %s." % b(ex_err), "",
             "(* fn load_fiber (assignments, incl. self.fiber.replace) and fn load_frame *)",
             "Definition load_fiber_assigns_src : list string := %s." % coq_list(lf_assign),
             "Definition load_fiber_calls_load_frame_src : bool := %s." % b("load_frame" in lf_calls),
             "Definition load_frame_assigns_src : list string := %s." % coq_list(lfr_assign), "",
             "(* fn reset *)",
             "Definition reset_assigns_src : list string := %s." % coq_list(rs_assign),
             "Definition reset_calls_src : list string := %s." % coq_list(rs_calls),
             "Definition reset_field_calls_src : list string := %s." % coq_list(rs_fcalls), "",
             "(* fn reset_stack: fiber fields cleared; touches only the fiber *)",
             "Definition reset_stack_clears_src : list string := %s." % coq_list(clears),
             "Definition reset_stack_fiber_only_src : bool := %s." % b(rst_fiber_only),
             "(* close_upvalues calls in reset_stack, and whether a loop follows the `caller` links *)",
             "Definition reset_stack_close_upvalues_src : nat := %d." % n_close,
             "Definition reset_stack_walks_callers_src : bool := %s." % b(walks),
             "(* what the loop clears in every waiting fiber, and the `caller.take()` calls *)",
             "Definition reset_stack_waiting_clears_src : list string := %s." % coq_list(waiting_clears),
             "Definition reset_stack_caller_takes_src : nat := %d." % n_take, "",
             "(* fn runtime_error *)",
             "Definition runtime_error_calls_src : list string := %s." % coq_list(re_calls),
             "Definition runtime_error_assigns_src : list string := %s." % coq_list(re_assign), "",
             "(* class definition and import protocol *)",
             "Definition declare_class_sets_def_src : bool := %s." % b(decl_sets),
             "Definition define_class_takes_def_src : bool := %s." % b(def_takes),
             "Definition start_import_looks_up_modules_src : bool := %s." % b(imp_lookup),
             "Definition start_import_tests_imported_src : bool := %s." % b(imp_flag),
             "Definition start_import_circular_message_src : bool := %s." % b(imp_circular),
             "(* a registered, not yet imported module that is not executing is removed and loaded afresh (367eb72) *)",
             "Definition start_import_reloads_dead_src : bool := %s." % b(imp_reloads and walks_chain),
             "Definition finish_import_sets_imported_src : bool := %s." % b(fin_sets), "",
             "(* struct ObjFiber *)",
             "Definition fiber_fields_src : list string := %s." % coq_list(fiber_fields), "",
             "(* yarel-cli repl: one Vm, interpret per line, never reset *)",
             "Definition cli_repl_interprets_src : bool := %s." % b(repl_interprets),
             "Definition cli_repl_resets_src : bool := %s." % b(repl_resets), ""]
    return "\n".join(lines) + "\n"


GENERATORS = {"VmFields.v": gen_vmfields}
