"""C17: shape of the error-position code of vm.rs / object.rs and the message format literals, read from the
CURRENT sources at token level and written to coq/gen/UnwindArms.v.  The booleans instantiate the `flags`
of YV.Lines (mechanism model); props/C17.v needs `unwind_clears_error_ip_on_catch`,
`unwind_rebases_error_ip_on_frame_drop`, `throw_records_error_ip`, `trace_*`, `store_prefers_error_ip` to be
true (the theorems are stated for that shape), and handles `failure_records_error_ip` either way.

  vm.rs     fn unwind_stack:    if handler.frame_count < <frames>.len() { let X = <frames>[handler.frame_count - 1].ip;
                                    <fiber>.error_ip = Some(X); }        BEFORE  frames.truncate(handler.frame_count)
                                self.handling_exception = handler.has_catch_block();
                                if !self.handling_exception { <fiber>.error_ip = None; }
            fn throw_impl:      <fiber>.error_ip = Some(self.ip);  before unwind_stack()
            fn try_handle_error / fn call_native (arm Err): <fiber>.error_ip = Some(self.ip); before unwind_stack()
            fn runtime_error:   let ip = self.ip; store_error_ip_or(ip); frames.iter().rev();
                                chunk.code_offset(frame.ip) - 1;  write!/format literals
            fn new_error_from_value: format!("Unhandled {}: {}", ..), "exception", "context"
  object.rs fn has_catch_block: self.finally_ip == self.catch_ip    (true = NO catch clause)
            fn store_error_ip_or: <frame>.ip = self.error_ip.unwrap_or(alternative)
            impl fmt::Display for ObjModule: write!(f, "module \\"{}\\"", ..)
  compiler.rs fn error_at: "[module \\"{}\\", line {}] Error", " at end", " at '{}'", ": {}"

Renaming variables keeps the booleans; removing a guard / an assignment / the `.rev()` / the `- 1` flips one."""
import os
import re
import sys

sys.path.insert(0, os.path.dirname(os.path.abspath(__file__)))
from rustlex import lex, match_group, find_seq, find_all_seq, body_after, text_of  # noqa

REPO = os.environ.get("VERIF_REPO", "/repo")
SRC = os.path.join(REPO, "yarel", "src")


def toks_of(name):
    with open(os.path.join(SRC, name)) as fh:
        return lex(fh.read())


def texts(toks, lo, hi):
    return [t.text for t in toks[lo:hi]]


def find_sub(seq, sub, start=0):
    k = len(sub)
    for i in range(start, len(seq) - k + 1):
        if seq[i:i + k] == sub:
            return i
    return -1


def fn_body(toks, name):
    i = find_seq(toks, ["fn", name])
    if i < 0:
        raise ValueError("fn %s not found" % name)
    return body_after(toks, i)


def assigns_error_ip(b, value):
    """index in token-text list b of `. error_ip = <value...>`, or -1"""
    return find_sub(b, [".", "error_ip", "="] + value)


def unwind_shape(man):
    vm = toks_of("vm.rs")
    o, c = fn_body(vm, "unwind_stack")
    b = texts(vm, o, c + 1)
    # --- re-basing when frames are dropped
    rebase = False
    guard = ["if", "handler", ".", "frame_count", "<"]
    gi = find_sub(b, guard)
    trunc = find_sub(b, [".", "frames", ".", "truncate", "(", "handler", ".", "frame_count", ")"])
    set_catch = find_sub(b, [".", "ip", "=", "handler", ".", "catch_ip"])
    if gi >= 0 and trunc > gi and set_catch > trunc:
        # guard condition up to `{` must be  handler.frame_count < <...>.frames.len()
        j = gi
        while b[j] != "{":
            j += 1
        cond = b[gi + 1:j]
        cond_ok = cond[:4] == ["handler", ".", "frame_count", "<"] and cond[-5:] == ["frames", ".", "len", "(", ")"] \
            and "||" not in cond and "&&" not in cond and "!" not in cond
        # body of the guard
        depth, k = 0, j
        while True:
            if b[k] == "{":
                depth += 1
            elif b[k] == "}":
                depth -= 1
                if depth == 0:
                    break
            k += 1
        body = b[j + 1:k]
        li = find_sub(body, ["let"])
        var = body[li + 1] if li >= 0 else None
        reads = find_sub(body, ["frames", "[", "handler", ".", "frame_count", "-", "1", "]", ".", "ip", ";"]) >= 0
        sets = var is not None and assigns_error_ip(body, ["Some", "(", var, ")", ";"]) >= 0
        rebase = cond_ok and reads and sets and k < trunc
    # --- clearing when a catch clause takes the exception
    clear = False
    hi = find_sub(b, ["self", ".", "handling_exception", "=", "handler", ".", "has_catch_block", "(", ")", ";"])
    ci = find_sub(b, ["if", "!", "self", ".", "handling_exception", "{"])
    if hi >= 0 and ci > hi:
        k = ci + 5
        depth, e = 0, k
        while True:
            if b[e] == "{":
                depth += 1
            elif b[e] == "}":
                depth -= 1
                if depth == 0:
                    break
            e += 1
        body = b[k + 1:e]
        clear = assigns_error_ip(body, ["None", ";"]) >= 0 and "Some" not in body
    # has_catch_block: true when there is NO catch clause (finally_ip == catch_ip)
    obj = toks_of("object.rs")
    ho, hc = fn_body(obj, "has_catch_block")
    hb = texts(obj, ho + 1, hc)
    no_catch_sense = hb in (["self", ".", "finally_ip", "==", "self", ".", "catch_ip"],
                            ["self", ".", "catch_ip", "==", "self", ".", "finally_ip"])
    # no other write of error_ip in unwind_stack
    n_writes = len([1 for i in range(len(b) - 2) if b[i:i + 3] == [".", "error_ip", "="]])
    expected = (1 if rebase else 0) + (1 if clear else 0)
    man["c17_unwind"] = {"rebase": rebase, "clear": clear, "has_catch_block_means_no_catch": no_catch_sense,
                         "error_ip_writes": n_writes}
    return rebase and n_writes == expected, clear and no_catch_sense and n_writes == expected


def records_before_unwind(b):
    i = assigns_error_ip(b, ["Some", "(", "self", ".", "ip", ")", ";"])
    u = find_sub(b, ["self", ".", "unwind_stack", "(", ")"])
    return 0 <= i < u


def raise_sites(man):
    vm = toks_of("vm.rs")
    o, c = fn_body(vm, "throw_impl")
    throw = records_before_unwind(texts(vm, o, c + 1))
    o, c = fn_body(vm, "try_handle_error")
    the = records_before_unwind(texts(vm, o, c + 1))
    o, c = fn_body(vm, "call_native")
    j = find_seq(vm, ["Err", "(", "error", ")", "=>"], o, c)
    nat = False
    if j >= 0:
        ao, ac = body_after(vm, j)
        nat = records_before_unwind(texts(vm, ao, ac + 1))
    man["c17_raise_sites"] = {"throw_impl": throw, "try_handle_error": the, "call_native_err": nat}
    return throw, the, nat


def unquote(lit):
    """Rust string literal token -> text; None when it has an escape we do not expect"""
    if lit is None or not lit.startswith('"'):
        return None
    s = lit[1:-1]
    out = []
    i = 0
    while i < len(s):
        if s[i] == "\\":
            if i + 1 < len(s) and s[i + 1] in '"\\':
                out.append(s[i + 1])
                i += 2
                continue
            return None
        out.append(s[i])
        i += 1
    return "".join(out)


def macro_literals(toks, lo, hi, names):
    """first string literal of every  <name>!( ... )  in toks[lo:hi], in source order"""
    res = []
    for j in range(lo, hi):
        if toks[j].text in names and toks[j + 1].text == "(":
            e = match_group(toks, j + 1)
            lit = next((t.text for t in toks[j + 2:e] if t.kind == "str"), None)
            res.append(unquote(lit))
    return res


def trace_shape(man):
    vm = toks_of("vm.rs")
    o, c = fn_body(vm, "runtime_error")
    b = texts(vm, o, c + 1)
    si = find_sub(b, [".", "store_error_ip_or", "("])
    var = b[si + 3] if si >= 0 and b[si + 4] == ")" else None      # any variable name
    live_ip = var is not None and find_sub(b, ["let", var, "=", "self", ".", "ip", ";"]) >= 0
    fi = find_sub(b, ["for", "frame", "in"])
    rev = False
    if fi >= 0:
        j = fi
        while b[j] != "{":
            j += 1
        head = b[fi:j]
        rev = head[-9:] == [".", "frames", ".", "iter", "(", ")", ".", "rev", "("] + [] or \
            head[-10:] == [".", "frames", ".", "iter", "(", ")", ".", "rev", "(", ")"]
    minus1 = find_sub(b, [".", "code_offset", "(", "frame", ".", "ip", ")", "-", "1", ";"]) >= 0
    idx = find_sub(b, ["chunk", ".", "lines", "[", "instruction", "]"]) >= 0 and \
        find_sub(b, ["let", "instruction", "=", "chunk", ".", "code_offset"]) >= 0
    store_first = find_sub(b, [".", "store_error_ip_or"]) < fi if fi >= 0 else False
    lits = macro_literals(vm, o, c, ("write!",))
    obj = toks_of("object.rs")
    so, sc = fn_body(obj, "store_error_ip_or")
    sb = texts(obj, so, sc + 1)
    prefers = find_sub(sb, [".", "ip", "=", "self", ".", "error_ip", ".", "unwrap_or", "(", "alternative", ")", ";"]) >= 0
    mi = find_seq(obj, ["impl", "fmt", "::", "Display", "for", "ObjModule"])
    mod_fmt = None
    if mi >= 0:
        mo, mc = body_after(obj, mi)
        ml = macro_literals(obj, mo, mc, ("write!",))
        mod_fmt = ml[0] if len(ml) == 1 else None
    # module and function read from the frame's closure
    who = find_sub(b, ["frame", ".", "closure", ".", "function", ",", "frame", ".", "closure", ".", "module"]) >= 0
    man["c17_runtime_error"] = {"live_ip_fallback": live_ip, "rev": rev, "minus1": minus1 and idx, "store_first": store_first,
                                "store_prefers_error_ip": prefers, "literals": lits, "module_fmt": mod_fmt, "who": who}
    return live_ip and store_first, rev and who, minus1 and idx, prefers, lits, mod_fmt


def unhandled_shape(man):
    vm = toks_of("vm.rs")
    o, c = fn_body(vm, "new_error_from_value")
    fm = macro_literals(vm, o, c, ("format!",))
    b = texts(vm, o, c + 1)
    exc = None
    k = find_sub(b, ["ErrorKind", "::", "RuntimeError", ","])
    for j in range(o, c):
        if vm[j].kind == "str" and vm[j + 1].text == "." and vm[j + 2].text == "to_owned" and unquote(vm[j].text) is not None:
            exc = unquote(vm[j].text)
    ctx = None
    j = find_seq(vm, ["new_gc_obj_string", "("], o, c)
    if j >= 0 and vm[j + 2].kind == "str":
        ctx = unquote(vm[j + 2].text)
    # description = class name of the instance (not of its metaclass), lines() split
    cls_name = find_sub(b, ["class", ".", "name", ".", "as_str", "(", ")", ".", "to_owned", "(", ")"]) >= 0 and \
        find_sub(b, ["let", "class", "=", "instance", ".", "borrow", "(", ")", ".", "class", ";"]) >= 0
    split = find_sub(b, ["msg", ".", "lines", "(", ")"]) >= 0
    man["c17_unhandled"] = {"format": fm, "exception": exc, "context": ctx, "class_name": cls_name, "lines": split}
    return (fm[0] if len(fm) == 1 else None), exc, ctx, cls_name and split


def error_at_shape(man):
    comp = toks_of("compiler.rs")
    o, c = fn_body(comp, "error_at")
    lits = macro_literals(comp, o, c, ("write!",))
    b = texts(comp, o, c + 1)
    line_of_token = find_sub(b, ["token", ".", "line"]) >= 0
    arms = find_sub(b, ["TokenKind", "::", "Eof", "=>"]) >= 0 and find_sub(b, ["TokenKind", "::", "Error", "=>", "{", "}"]) >= 0
    eo, ec = fn_body(comp, "emit_byte")
    eb = texts(comp, eo, ec + 1)
    emit_prev = find_sub(eb, ["self", ".", "previous", ".", "line"]) >= 0 and "current" not in eb
    man["c17_error_at"] = {"literals": lits, "token_line": line_of_token, "arms": arms, "emit_byte_previous_line": emit_prev}
    return lits, line_of_token and arms, emit_prev



# ---------------------------------------------------------------------------------------------------------
# every failure raised by an instruction goes through try_handle_error (so that a handler is consulted and the
# report names the class)

def vm_functions(toks):
    """(name, body_open, body_close) of every fn with a body"""
    res = []
    for j, t in enumerate(toks):
        if t.text == "fn" and j + 1 < len(toks) and toks[j + 1].kind == "id":
            k = j + 2
            while k < len(toks) and toks[k].text not in ("{", ";"):
                if toks[k].text in ("(", "["):
                    k = match_group(toks, k)
                k += 1
            if k < len(toks) and toks[k].text == "{":
                res.append((toks[j + 1].text, k, match_group(toks, k)))
    return res


def dispatch_shape(man):
    vm = toks_of("vm.rs")
    fns = vm_functions(vm)
    # innermost function of a token index
    def owner(i):
        best = None
        for name, o, c in fns:
            if o < i < c and (best is None or o > best[1]):
                best = (name, o, c)
        return best
    bodies = {}
    for name, o, c in fns:
        bodies.setdefault(name, (o, c))
    run = bodies.get("run")
    if run is None:
        raise ValueError("fn run not found")
    HANDLERS = ("try_handle_error", "unwind_stack")

    def callee_before_q(i):
        """vm[i] is `?`: name g when the operand is a method call `. g ( ... )`, else None"""
        if vm[i - 1].text != ")":
            return None
        depth, k = 0, i - 1
        while k >= 0:
            if vm[k].text == ")":
                depth += 1
            elif vm[k].text == "(":
                depth -= 1
                if depth == 0:
                    break
            k -= 1
        if k >= 2 and vm[k - 1].kind == "id" and vm[k - 2].text == ".":
            return vm[k - 1].text
        return None

    d0 = set()
    for i in range(run[0], run[1]):
        if vm[i].text == "?":
            g = callee_before_q(i)
            if g:
                d0.add(g)
    D = set(d0)
    for name, (o, c) in bodies.items():
        b = texts(vm, o, c + 1)
        if any(find_sub(b, ["self", ".", h, "("]) >= 0 for h in HANDLERS) and name not in HANDLERS + ("run",):
            D.add(name)
    problems = []
    raw_ok = {("return_impl", "unload_fiber")}     # guarded by `caller.is_some()`: cannot fail there
    for name in sorted(D):
        if name not in bodies:
            problems.append("%s: no body" % name)
            continue
        o, c = bodies[name]
        b = texts(vm, o, c + 1)
        if find_sub(b, ["return", "Err", "("]) >= 0:
            problems.append("%s: `return Err(` leaves the run loop without try_handle_error" % name)
        for i in range(o, c):
            if vm[i].text == "?":
                g = callee_before_q(i)
                if g is None or not (g in D or g in HANDLERS or (name, g) in raw_ok):
                    problems.append("%s: `?` on %s propagates a raw error" % (name, g or "a value"))
            if vm[i].text == "error!" and vm[i + 1].text == "(":
                # enclosing `let NAME = ... ;`
                k, depth, letname = i, 0, None
                while k > o:
                    t = vm[k].text
                    if t in (")", "]", "}"):
                        depth += 1
                    elif t in ("(", "[", "{"):
                        depth -= 1
                    elif t == ";" and depth <= 0:
                        break
                    elif t == "let" and depth <= 0:
                        n0 = k + 2 if vm[k + 1].text == "mut" else k + 1
                        if vm[n0].kind == "id" and vm[n0 + 1].text == "=":
                            letname = vm[n0].text
                            break
                    k -= 1
                if letname is None:
                    problems.append("%s: error! value not bound by a let" % name)
                    continue
                rest = texts(vm, i, c + 1)
                names = {letname}
                for pat in (["if", "let", "Err", "("], ["if", "let", "Some", "("], ["Err", "("], ["Some", "("]):
                    p = 0
                    while True:
                        p = find_sub(rest, pat, p)
                        if p < 0:
                            break
                        q = p + len(pat)
                        if rest[q + 1] == ")" and (rest[q + 2] in ("=", "=>")):
                            if rest[q + 2] == "=>" or rest[q + 3] in names:
                                names.add(rest[q])
                        p += 1
                if not any(find_sub(rest, ["try_handle_error", "(", v, ")"]) >= 0 for v in names):
                    problems.append("%s: error! value `%s` does not reach try_handle_error" % (name, letname))
        if name == "return_impl" and "unload_fiber" in b:
            u = b.index("unload_fiber")
            depth, k = 0, u
            while k > 0 and not (b[k] == "{" and depth == 0):      # the block that contains the call
                if b[k] == "}":
                    depth += 1
                elif b[k] == "{":
                    depth -= 1
                k -= 1
            j = k
            while j > 0 and b[j] != "if":
                j -= 1
            if find_sub(b[j:k], ["caller", ".", "is_some", "(", ")"]) < 0:
                problems.append("return_impl: unload_fiber no longer guarded by caller.is_some()")
    # functions that hand a raw Error to their caller (the caller must wrap it: they may not be called with `?` from D)
    raw = sorted(n for n, (o, c) in bodies.items() if n not in D and n not in HANDLERS + ("run",) and
                 (find_sub(texts(vm, o, c + 1), ["Err", "(", "error!"]) >= 0 or "?" in texts(vm, o, c + 1)))
    man["c17_dispatch"] = {"dispatch_functions": sorted(D), "raw_error_helpers": raw, "problems": problems}
    return not problems


# ---------------------------------------------------------------------------------------------------------
# line numbers are kept in at least 32 bits everywhere and never narrowed

WIDE = ("i32", "u32", "i64", "u64", "usize", "isize", "i128", "u128")


def line_types(man):
    problems = []
    chunk = toks_of("chunk.rs")
    i = find_seq(chunk, ["lines", ":", "Vec", "<"])
    elem = chunk[i + 4].text if i >= 0 else None
    if elem not in WIDE:
        problems.append("chunk.rs: Chunk.lines is Vec<%s>" % elem)
    fields = {}
    for f in ("chunk.rs", "scanner.rs", "compiler.rs", "vm.rs", "object.rs"):
        toks = toks_of(f)
        for j in range(len(toks) - 2):
            # declarations  `line: T`  (struct fields, parameters)
            if toks[j].text == "line" and toks[j + 1].text == ":" and toks[j + 2].kind == "id" and toks[j + 2].text[0].islower() \
                    and toks[j + 2].text not in ("self",) and toks[j + 3].text in (",", ")", "}"):
                t = toks[j + 2].text
                if re.match(r"^[iu](8|16|32|64|128|size)$", t):
                    fields["%s:%d" % (f, toks[j].line)] = t
                    if t not in WIDE:
                        problems.append("%s:%d: `line: %s`" % (f, toks[j].line, t))
            # casts  `line as T` / `.line as T` / `lines[..] as T`
            if toks[j].text == "as" and toks[j + 1].kind == "id" and j >= 1:
                prev = toks[j - 1].text
                is_line = prev in ("line", "lines") or (prev == "]" and any(x.text == "lines" for x in toks[max(0, j - 8):j]))
                if is_line and toks[j + 1].text not in WIDE:
                    problems.append("%s:%d: line narrowed `as %s`" % (f, toks[j].line, toks[j + 1].text))
    if not fields:
        problems.append("no `line: T` declaration recognised")
    man["c17_line_types"] = {"chunk_lines_element": elem, "line_declarations": fields, "problems": problems}
    return not problems

# ---------------------------------------------------------------------------------------------------------
# scanner.rs: every place that can consume a "\n" counts it, and nothing else moves the line counter

def newline_shape(man):
    """Every place of scanner.rs that tests for a line break and consumes it counts it, and every `self.line += 1` sits
    directly under such a test:
      counting site  =  match arm  "\n" => { .. self.line += 1; .. }
                     |  if <cond mentioning "\n" or '\n' positively: == / ends_with( / match_char(> { .. self.line += 1; .. }
                     |  let <flag> = <x> == "\n"; .. if <flag> { .. self.line += 1; .. }      (/repo e81033c)
      allowed other uses of the literal:  != "\n" (stops BEFORE it), push_str("\n") / push('\n') (value of a literal);
      required sites: an arm in skip_whitespace and in string; a site in read_escaped_bytes (it advances over characters
      it does not look at: /repo 914ba97, finding escape_swallows_newline)."""
    sc = toks_of("scanner.rs")
    NLS = ('"\\n"', "'\\n'")
    problems, sites = [], []          # sites: (function, kind, block open index, block close index)
    fns = vm_functions(sc)

    def owner(i):
        best = None
        for name, o, c in fns:
            if o < i < c and (best is None or o > best[1]):
                best = (name, o, c)
        return best[0] if best else "?"

    def has_incr(lo, hi):
        return find_sub(texts(sc, lo, hi + 1), ["self", ".", "line", "+=", "1", ";"]) >= 0
    for i, t in enumerate(sc):
        if t.kind in ("str", "chr") and t.text in NLS:
            nxt, prev = sc[i + 1].text, sc[i - 1].text
            call = sc[i - 2].text if prev == "(" else None
            if nxt == "=>":                               # match arm
                if sc[i + 2].text != "{":
                    problems.append("scanner.rs:%d: newline arm without a block" % t.line)
                    continue
                e = match_group(sc, i + 2)
                if has_incr(i + 2, e):
                    sites.append((owner(i), "arm", i + 2, e))
                else:
                    problems.append("scanner.rs:%d: the newline arm of %s does not count the line" % (t.line, owner(i)))
            elif (prev == "==" and nxt == ";" and i >= 5 and sc[i - 5].text == "let" and sc[i - 3].text == "="
                  and sc[i - 4].kind == "id"):
                # `let <flag> = <x> == "\n";` (/repo e81033c: the Error token is built between the test and the count):
                # the flag must guard, later in the same function, `if <flag> { .. self.line += 1; .. }` - that block is
                # the counting site
                flag, fn_close = sc[i - 4].text, max([c for name, o, c in fns if o < i < c] or [len(sc) - 1])
                q = i + 2
                while q + 2 < fn_close and not (sc[q].text == "if" and sc[q + 1].text == flag and sc[q + 2].text == "{"):
                    q += 1
                if q + 2 >= fn_close:
                    problems.append("scanner.rs:%d: %s keeps a line-break test in `%s` and never counts under it" % (t.line, owner(i), flag))
                elif not has_incr(q + 2, match_group(sc, q + 2)):
                    problems.append("scanner.rs:%d: %s tests `%s` (a line break) and does not count the line" % (sc[q].line, owner(i), flag))
                else:
                    sites.append((owner(i), "flag", q + 2, match_group(sc, q + 2)))
            elif prev == "==" or call in ("match_char", "ends_with", "starts_with", "contains"):
                # a positive test guarding a block: the block consumes / has consumed the line break -> it must count it
                j = i
                while j < len(sc) and sc[j].text not in ("{", ";"):
                    j += 1
                # the test must be the condition of an `if` (not negated)
                k = i
                while k > 0 and sc[k].text not in ("if", "while", ";", "{", "}"):
                    k -= 1
                cond = texts(sc, k, j)
                g = find_sub(cond, ["!", "self", ".", "is_at_end", "(", ")", "&&"])
                if g >= 0:                                  # `!self.is_at_end() && <test>` is the same test
                    cond = cond[:g] + cond[g + 7:]
                if j >= len(sc) or sc[j].text != "{" or sc[k].text != "if" or "!" in cond or "||" in cond:
                    problems.append("scanner.rs:%d: %s tests for a line break in a shape that is not `if <test> { .. }`" % (t.line, owner(i)))
                elif not has_incr(j, match_group(sc, j)):
                    problems.append("scanner.rs:%d: %s tests for a line break and does not count the line" % (t.line, owner(i)))
                else:
                    sites.append((owner(i), "if", j, match_group(sc, j)))
            elif prev == "!=" or call in ("push_str", "push"):
                pass
            else:
                problems.append("scanner.rs:%d: unrecognised use of a newline literal in %s" % (t.line, owner(i)))
    b = texts(sc, 0, len(sc))
    incr_at = [i for i in range(len(b) - 5) if b[i:i + 6] == ["self", ".", "line", "+=", "1", ";"]]
    writes = len([1 for i in range(len(b) - 3) if b[i:i + 3] == ["self", ".", "line"] and b[i + 3] in ("=", "+=", "-=", "*=")])
    for i in incr_at:
        inside = [st for st in sites if st[2] < i < st[3]]
        # directly under the test: no loop between the site's block and the increment
        if not inside:
            problems.append("scanner.rs:%d: `self.line += 1` in %s is not under a test for a line break" % (sc[i].line, owner(i)))
        else:
            lo = max(st[2] for st in inside)
            if any(x in ("while", "for", "loop") for x in b[lo:i]):
                problems.append("scanner.rs:%d: `self.line += 1` in %s is inside a loop under the test" % (sc[i].line, owner(i)))
    if writes != len(incr_at) or len(incr_at) != len(sites):
        problems.append("scanner.rs: %d writes of self.line, %d of them `+= 1`, for %d counting sites" % (writes, len(incr_at), len(sites)))
    have = {(st[0], st[1]) for st in sites}
    for need in (("skip_whitespace", "arm"), ("string", "arm")):
        if need not in have:
            problems.append("scanner.rs: fn %s has no counting newline arm" % need[0])
    if any(name == "read_escaped_bytes" for name, _o, _c in fns) and not any(st[0] == "read_escaped_bytes" for st in sites):
        problems.append("scanner.rs: fn read_escaped_bytes advances over characters it does not look at and has no counting site")
    man["c17_scanner_newlines"] = {"counting_sites": sorted("%s:%s" % (st[0], st[1]) for st in sites), "line_increments": len(incr_at),
                                   "problems": problems}
    return not problems


def coq_bool(b):
    return "true" if b else "false"


def coq_str(s):
    if s is None or any(ord(ch) < 32 or ord(ch) > 126 for ch in s):
        return '"?unknown?"'
    return '"%s"' % s.replace('"', '""')


def gen_unwindarms(man):
    rebase, clear = unwind_shape(man)
    throw, fail_vm, fail_nat = raise_sites(man)
    live_ip, rev, minus1, prefers, tlits, mod_fmt = trace_shape(man)
    ufmt, exc, ctx, udesc = unhandled_shape(man)
    clits, cshape, emit_prev = error_at_shape(man)
    dispatch_ok = dispatch_shape(man)
    lines_wide = line_types(man)
    newlines_ok = newline_shape(man)
    tl = (tlits + [None] * 3)[:3] if len(tlits) == 3 else [None] * 3
    cl = clits if len(clits) == 4 else [None] * 4
    templates = [tl[0], tl[1], tl[2], mod_fmt, ufmt, exc, ctx, cl[0], cl[1], cl[2], cl[3]]
    lines = ["(* GENERATED by translator/translate_c17.py from vm.rs, object.rs, compiler.rs - do not edit *)",
             "From Coq Require Import List String Bool.", "Import ListNotations.", "Open Scope string_scope.", "",
             "(* vm.rs fn unwind_stack *)",
             "Definition unwind_clears_error_ip_on_catch : bool := %s." % coq_bool(clear),
             "Definition unwind_rebases_error_ip_on_frame_drop : bool := %s." % coq_bool(rebase),
             "(* vm.rs fn throw_impl / fn try_handle_error + Err arm of fn call_native *)",
             "Definition throw_records_error_ip : bool := %s." % coq_bool(throw),
             "Definition failure_records_error_ip_vm : bool := %s." % coq_bool(fail_vm),
             "Definition failure_records_error_ip_native : bool := %s." % coq_bool(fail_nat),
             "Definition failure_records_error_ip : bool := %s." % coq_bool(fail_vm and fail_nat),
             "(* vm.rs fn runtime_error, object.rs fn store_error_ip_or *)",
             "Definition trace_falls_back_to_live_ip : bool := %s." % coq_bool(live_ip),
             "Definition trace_innermost_first : bool := %s." % coq_bool(rev),
             "Definition trace_index_offset_minus_one : bool := %s." % coq_bool(minus1),
             "Definition store_prefers_error_ip : bool := %s." % coq_bool(prefers),
             "(* vm.rs: in every function the run loop calls with `?` (and every function that calls try_handle_error) no",
             "   `return Err(`, no `?` on a raw error, every error! value reaches try_handle_error *)",
             "Definition dispatch_errors_go_through_handlers : bool := %s." % coq_bool(dispatch_ok),
             "(* chunk.rs Chunk.lines / write, scanner.rs Token.line / Scanner.line, every `line as T`: at least 32 bits *)",
             "Definition line_types_wide : bool := %s." % coq_bool(lines_wide),
             "(* scanner.rs: every newline match arm (skip_whitespace, string) and every `if <test for a line break> { }` block",
             "   (read_escaped_bytes) does `self.line += 1`; every increment sits directly under such a test; self.line is",
             "   written nowhere else *)",
             "Definition scanner_counts_every_newline : bool := %s." % coq_bool(newlines_ok),
             "(* vm.rs fn new_error_from_value: class name of the instance, message split at newlines *)",
             "Definition unhandled_names_instance_class : bool := %s." % coq_bool(udesc),
             "(* compiler.rs fn error_at: token.line, Eof / Error arms; fn emit_byte: previous.line *)",
             "Definition error_at_uses_token_line : bool := %s." % coq_bool(cshape),
             "Definition emit_byte_uses_previous_line : bool := %s." % coq_bool(emit_prev),
             "",
             "(* format literals, in the order of YV.Lines.format_templates *)",
             "Definition gen_format_templates : list string :=",
             "  [%s]." % ";\n   ".join(coq_str(t) for t in templates), ""]
    man["c17_templates"] = templates
    return "\n".join(lines) + "\n"


GENERATORS = {"UnwindArms.v": gen_unwindarms}
