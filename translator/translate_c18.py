"""C18: the methods of the classes Iter / MapIter / FilterIter of core.yl -> gen/IterFns.v.

For every `fn` of class Iter: its name, its parameters and HOW it obtains the iterator it consumes:
  "self"      the method returns the receiver (Iter.iter)
  "iter"      the body calls self.iter() and never uses a bare `self` otherwise          (map, filter)
  "for"       the body loops `for <v> in self` (the for statement calls iter())          (collect, reduce)
  "bare"      the body hands the receiver itself to something else (NO iter() call): the consumer would see the
              iterable object instead of its iterator
props/C18.v has the side conditions `every consumer of Iter goes through iter()` and `every method of Iter is covered
by the generators` (IterLang.covered_consumers); a new adapter in core.yl shows up there as uncovered."""
import os
import re

SRC = os.path.join(os.environ.get("VERIF_REPO", "/repo"), "yarel", "src", "core.yl")


def class_body(text, name):
    m = re.search(r"^class\s+%s\s*\{" % re.escape(name), text, re.M)
    if not m:
        raise ValueError("class %s not found in core.yl" % name)
    i = m.end()
    depth = 1
    while depth and i < len(text):
        c = text[i]
        if c == "{":
            depth += 1
        elif c == "}":
            depth -= 1
        i += 1
    return text[m.end():i - 1]


def methods(body):
    """[(name, params, body text)] of the top-level fns of a class body"""
    res = []
    for m in re.finditer(r"\bfn\s+(\w+)\s*\(([^)]*)\)\s*\{", body):
        # only top level: brace depth before the match must be 0
        if body[:m.start()].count("{") != body[:m.start()].count("}"):
            continue
        i = m.end()
        depth = 1
        while depth and i < len(body):
            if body[i] == "{":
                depth += 1
            elif body[i] == "}":
                depth -= 1
            i += 1
        res.append((m.group(1), [p.strip() for p in m.group(2).split(",") if p.strip()], body[m.end():i - 1]))
    return res


def strip_comments(t):
    return re.sub(r"//[^\n]*", "", t)


def how(body):
    """how the method gets at the iterator of its receiver"""
    t = re.sub(r"\s+", " ", strip_comments(body)).strip()
    if t == "return self;":
        return "self"
    rest = t.replace("self.iter()", "@")
    loops = re.findall(r"\bfor \w+ in self\b", rest)
    rest2 = re.sub(r"\bfor (\w+) in self\b", r"for \1 in @", rest)
    bare = re.search(r"\bself\b(?!\.)", rest2) is not None
    if bare:
        return "bare"
    if loops:
        return "for"
    if "@" in rest:
        return "iter"
    return "none"


def q(s):
    return '"%s"' % s.replace('"', '""')


def gen_iterfns(man):
    with open(SRC) as fh:
        text = fh.read()
    rows = {}
    selfcalls = []
    for cls in ("Iter", "MapIter", "FilterIter"):
        ms = methods(class_body(text, cls))
        rows[cls] = [(n, ps, how(b)) for n, ps, b in ms]
        for n, ps, b in ms:
            # a method that calls ITSELF on its receiver: every step of such a recursion costs a call frame (the VM has
            # no tail calls, FRAMES_MAX = 64), so the length of the data would bound what can be iterated
            if re.search(r"\bself\s*\.\s*%s\s*\(" % re.escape(n), strip_comments(b)):
                selfcalls.append("%s.%s" % (cls, n))
    if not rows["Iter"]:
        raise ValueError("class Iter has no methods")
    man["c18_iter_self_calls"] = selfcalls
    man["c18_iter_fns"] = {cls: [{"name": n, "params": ps, "how": h} for n, ps, h in r] for cls, r in rows.items()}
    lines = ["(* GENERATED from core.yl (classes Iter, MapIter, FilterIter) - do not edit *)",
             "From Coq Require Import List String.", "Import ListNotations.", "Open Scope string_scope.", ""]
    for cls in ("Iter", "MapIter", "FilterIter"):
        lines.append("(* (method, number of parameters besides self, how it obtains the iterator of its receiver) *)")
        lines.append("Definition %s_fns : list (string * nat * string) := [%s]." % (
            cls.lower(), "; ".join("(%s, %d, %s)" % (q(n), len(ps) - 1, q(h)) for n, ps, h in rows[cls])))
    lines.append("(* methods of these classes whose body calls the same method on self (recursion instead of a loop) *)")
    lines.append("Definition iter_self_calls : list string := [%s]." % "; ".join(q(x) for x in selfcalls))
    return "\n".join(lines) + "\n"


GENERATORS = {"IterFns.v": gen_iterfns}
