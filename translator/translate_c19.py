"""C19: structure of the hand-written pieces of number printing / lexing / parsing, read from the CURRENT
sources at token level and written to coq/gen/NumSrc.v.  The generated booleans instantiate the parameters
of YV.NumSrcModel (lex_number_src, print_f64_src); props/C19.v needs them to be `true`.

  value.rs    impl fmt::Display for Value / arm `Value::Number(..)`:
                 if <.. == 0.0 && ...is_sign_negative()> { write!(f, "-0") } else { write!(f, "{}", ..) }
  scanner.rs  fn number: while is_digit(peek) advance; if peek()=="." && is_digit(peek_next()) {advance; while ...}
  core.rs     fn string_to_num: `<string>.parse::<f64>()` on the untouched receiver (no trim / replace)
  compiler.rs fn number: `s.previous.source.as_str().parse::<f64>()`

Renaming variables or re-ordering the conjuncts keeps the booleans; removing a branch/guard flips one."""
import os
import sys

sys.path.insert(0, os.path.dirname(os.path.abspath(__file__)))
from rustlex import lex, match_group, find_seq, find_all_seq, body_after, text_of  # noqa

REPO = os.environ.get("VERIF_REPO", "/repo")
SRC = os.path.join(REPO, "yarel", "src")


def toks_of(name):
    with open(os.path.join(SRC, name)) as fh:
        return lex(fh.read())


def texts(toks, lo, hi):
    return [t.text for t in toks[lo:hi]]


def contains(seq, sub):
    k = len(sub)
    return any(seq[i:i + k] == sub for i in range(len(seq) - k + 1))


def write_literals(toks, lo, hi):
    """format strings of the write!(f, "...") calls in toks[lo:hi]"""
    res = []
    for j in range(lo, hi):
        if toks[j].text == "write!" and toks[j + 1].text == "(":
            e = match_group(toks, j + 1)
            lit = next((t.text for t in toks[j + 2:e] if t.kind == "str"), None)
            nargs = sum(1 for t in toks[j + 2:e] if t.text == ",")
            res.append((lit, nargs))
    return res


def display_number(man):
    """(neg_zero_branch, neg_zero_text, default_format)"""
    toks = toks_of("value.rs")
    i = find_seq(toks, ["impl", "fmt", "::", "Display", "for", "Value"])
    if i < 0:
        raise ValueError("impl fmt::Display for Value not found")
    o, c = body_after(toks, i)
    a = find_seq(toks, ["Value", "::", "Number", "("], o, c)
    if a < 0:
        raise ValueError("Display arm Value::Number not found")
    pe = match_group(toks, a + 3)
    if toks[pe + 1].text != "=>":
        raise ValueError("Display arm Value::Number: no =>")
    if toks[pe + 2].text == "{":
        lo, hi = pe + 3, match_group(toks, pe + 2)
    else:
        lo = pe + 2
        hi = lo
        depth = 0
        while hi < c and not (toks[hi].text == "," and depth == 0):
            if toks[hi].text in "([{":
                depth += 1
            elif toks[hi].text in ")]}":
                depth -= 1
            hi += 1
    branch, ztext, fmt = False, None, None
    k = find_seq(toks, ["if"], lo, hi)
    if k >= 0:
        bo, bc = body_after(toks, k)
        cond = texts(toks, k + 1, bo)
        then_w = write_literals(toks, bo, bc)
        else_w = []
        if bc + 1 < hi and toks[bc + 1].text == "else":
            eo, ec = body_after(toks, bc + 1)
            else_w = write_literals(toks, eo, ec)
        zero_test = contains(cond, ["==", "0.0"]) or contains(cond, ["0.0", "=="])
        sign_test = "is_sign_negative" in cond
        if zero_test and sign_test and "&&" in cond and "!" not in cond and len(then_w) == 1 and then_w[0][1] == 1:
            branch = True
            ztext = then_w[0][0]
        if len(else_w) == 1:
            fmt = else_w[0][0]
    else:
        w = write_literals(toks, lo, hi)
        if len(w) == 1:
            fmt = w[0][0]
    man["c19_display_number"] = {"neg_zero_branch": branch, "neg_zero_text": ztext, "default_format": fmt,
                                 "arm": text_of(toks, lo, hi)[:400]}
    return branch, ztext, fmt


def scanner_number(man):
    toks = toks_of("scanner.rs")
    i = find_seq(toks, ["fn", "number"])
    if i < 0:
        raise ValueError("scanner.rs: fn number not found")
    o, c = body_after(toks, i)
    digit_loop = ["while", "is_digit", "(", "self", ".", "peek", "(", ")", ")", "{", "self", ".", "advance", "(", ")", ";", "}"]
    body = texts(toks, o + 1, c)
    # 1. integer part loop comes first
    int_loop = body[:len(digit_loop)] == digit_loop
    # 2. fraction: if <cond> { advance; digit loop }
    k = find_seq(toks, ["if"], o, c)
    dot_guard = la_guard = frac_body = False
    extra_cond = True
    if k >= 0:
        bo, bc = body_after(toks, k)
        cond = texts(toks, k + 1, bo)
        dot = ["self", ".", "peek", "(", ")", "==", '"."']
        la = ["is_digit", "(", "self", ".", "peek_next", "(", ")", ")"]
        dot_guard = contains(cond, dot)
        la_guard = contains(cond, la)
        rest = list(cond)
        for sub in (dot, la):
            for p in range(len(rest) - len(sub) + 1):
                if rest[p:p + len(sub)] == sub:
                    del rest[p:p + len(sub)]
                    break
        # nothing but the conjunction of the two tests (no `||`, no negation, no further test)
        extra_cond = [t for t in rest if t not in ("&&", "(", ")")] != []
        fb = texts(toks, bo + 1, bc)
        frac_body = fb == ["self", ".", "advance", "(", ")", ";"] + digit_loop
    tail = contains(body, ["self", ".", "make_token", "(", "TokenKind", "::", "Number", ")"])
    n_if = len(find_all_seq(toks, ["if"], o, c))
    n_while = len(find_all_seq(toks, ["while"], o, c))
    # is_digit: ASCII digits only
    j = find_seq(toks, ["fn", "is_digit"])
    ascii_only = False
    if j >= 0:
        io, ic = body_after(toks, j)
        ascii_only = "is_ascii_digit" in texts(toks, io, ic)
    # scan_token dispatches on is_digit(c)
    s = find_seq(toks, ["fn", "scan_token"])
    dispatch = False
    if s >= 0:
        so, sc = body_after(toks, s)
        dispatch = find_seq(toks, ["if", "is_digit", "(", "c", ")", "{", "return", "self", ".", "number", "(", ")"], so, sc) >= 0
    d = {"int_loop": int_loop, "dot_guard": dot_guard and not extra_cond, "peek_next_guard": la_guard and not extra_cond,
         "frac_body": frac_body, "makes_number_token": tail, "single_if_two_loops": n_if == 1 and n_while == 2,
         "is_digit_ascii_only": ascii_only, "dispatch_on_digit": dispatch}
    man["c19_scanner_number"] = dict(d, body=" ".join(body)[:600])
    return d


def parse_sites(man):
    core = toks_of("core.rs")
    i = find_seq(core, ["fn", "string_to_num"])
    direct = False
    if i >= 0:
        o, c = body_after(core, i)
        b = texts(core, o, c)
        direct = contains(b, [".", "parse", "::", "<", "f64", ">", "(", ")"]) and not any(
            t in b for t in ("trim", "trim_start", "trim_end", "replace", "strip_prefix", "strip_suffix", "to_lowercase",
                             "to_uppercase", "split", "chars", "filter", "unwrap_or", "unwrap_or_default"))
    comp = toks_of("compiler.rs")
    lit = False
    for j in find_all_seq(comp, ["fn", "number"]):
        o, c = body_after(comp, j)
        b = texts(comp, o, c)
        if contains(b, ["previous", ".", "source", ".", "as_str", "(", ")", ".", "parse", "::", "<", "f64", ">", "(", ")"]) and \
                "emit_constant" in b and not any(t in b for t in ("trim", "replace", "unwrap_or")):
            lit = True
    man["c19_parse_sites"] = {"to_num_parses_receiver_directly": direct, "literal_parses_lexeme_directly": lit}
    return direct, lit


def text_routes(man):
    """number -> text happens only at run time, through Display:
       compiler.rs interpolation: every `${}` part is `s.expression(); s.emit_byte(OpCode::FormatString ..);` unconditionally
       (top level of the loop body, nothing removed from the chunk); vm.rs format_string_impl and core.rs string_from use format!("{}", v)"""
    comp = toks_of("compiler.rs")
    every = False
    no_edit = False
    i = find_seq(comp, ["fn", "interpolation"])
    if i >= 0:
        o, c = body_after(comp, i)
        b = texts(comp, o, c)
        no_edit = not any(t in b for t in ("truncate", "pop", "remove", "drain", "clear", "set_len", "split_off"))
        l = find_seq(comp, ["loop"], o, c)
        if l >= 0:
            lo, lc = body_after(comp, l)
            want = ["s", ".", "expression", "(", ")", ";", "s", ".", "emit_byte", "(", "OpCode", "::", "FormatString", "as", "u8", ")", ";"]
            depth = 0
            j = lo + 1
            while j < lc:
                t = comp[j].text
                if depth == 0 and texts(comp, j, j + len(want)) == want:
                    every = True
                if t in ("{", "(", "["):
                    depth += 1
                elif t in ("}", ")", "]"):
                    depth -= 1
                j += 1
            # exactly one call of expression() per loop round
            every = every and len(find_all_seq(comp, ["s", ".", "expression", "(", ")"], lo, lc)) == 1
    vm = toks_of("vm.rs")
    fmt_display = False
    i = find_seq(vm, ["fn", "format_string_impl"])
    if i >= 0:
        o, c = body_after(vm, i)
        b = texts(vm, o, c)
        fmt_display = contains(b, ["format!", "(", '"{}"', ",", "value", ")"])
    core = toks_of("core.rs")
    from_display = False
    i = find_seq(core, ["fn", "string_from"])
    if i >= 0:
        o, c = body_after(core, i)
        b = texts(core, o, c)
        from_display = contains(b, ["format!", "(", '"{}"', ","]) and b.count("format!") == 1
    INT_TYPES = ("i8", "i16", "i32", "i64", "i128", "isize", "u8", "u16", "u32", "u64", "u128", "usize", "f32")

    def has_cast(toks, lo, hi):
        return any(toks[j].text == "as" and toks[j + 1].text in INT_TYPES for j in range(lo, hi - 1))

    # core.rs print: formats the Value with "{}" and does nothing numeric (no cast, no fract/trunc/round, no branch on the value)
    print_display = False
    print_no_cast = False
    i = find_seq(core, ["fn", "print"])
    if i >= 0:
        o, c = body_after(core, i)
        b = texts(core, o, c)
        print_display = contains(b, ["println!", "(", '"{}"', ",", "vm", ".", "peek", "(", "0", ")", ")"]) and b.count("println!") == 1
        print_no_cast = not has_cast(core, o, c) and not any(t in b for t in ("fract", "trunc", "round", "floor", "ceil", "to_bits", "Number"))
    # the other text routes contain no numeric cast either
    routes_no_cast = True
    for toks, names in ((vm, ["format_string_impl"]), (core, ["string_from"])):
        for nm in names:
            k = find_seq(toks, ["fn", nm])
            if k < 0:
                routes_no_cast = False
                continue
            o, c = body_after(toks, k)
            if has_cast(toks, o, c):
                routes_no_cast = False
    # Display of Value and of the containers (object.rs ObjVec / ObjTuple / ObjHashMap): elements go through "{}", no cast
    disp_no_cast = True
    val = toks_of("value.rs")
    k = find_seq(val, ["impl", "fmt", "::", "Display", "for", "Value"])
    if k < 0:
        disp_no_cast = False
    else:
        o, c = body_after(val, k)
        disp_no_cast = not has_cast(val, o, c)
    obj = toks_of("object.rs")
    for nm in ("ObjVec", "ObjTuple", "ObjHashMap"):
        k = find_seq(obj, ["impl", "fmt", "::", "Display", "for", nm])
        if k < 0:
            disp_no_cast = False
            continue
        o, c = body_after(obj, k)
        if has_cast(obj, o, c):
            disp_no_cast = False
    d = {"interpolation_formats_every_part": every, "interpolation_never_edits_chunk": no_edit,
         "format_string_uses_display": fmt_display, "string_from_uses_display": from_display,
         "print_uses_display": print_display, "print_has_no_numeric_code": print_no_cast,
         "text_routes_have_no_numeric_cast": routes_no_cast, "display_impls_have_no_numeric_cast": disp_no_cast}
    man["c19_text_routes"] = d
    return d


def number_memory(man):
    """round 9: no number->text route has MEMORY.  (1) no field of `pub struct Vm` and no `static` of vm.rs / core.rs / value.rs /
    object.rs has a type that mentions a float (a memo of a formatted number needs one); (2) the bodies of vm.rs format_string_impl /
    build_string_impl and core.rs string_from / print touch no state: every `self.<name>` / `vm.<name>` is a method CALL, there is no
    assignment through self/vm and no static / thread_local / Cell; (3) the Display arm of Value::Number names no static / Cell."""
    vm = toks_of("vm.rs")
    fields = []
    i = find_seq(vm, ["pub", "struct", "Vm", "{"])
    if i >= 0:
        o = i + 3
        c = match_group(vm, o)
        depth = 0
        cur = []
        for j in range(o + 1, c + 1):
            t = vm[j].text
            if j == c or (t == "," and depth == 0):
                if cur:
                    fields.append(cur)
                cur = []
                continue
            if t in ("(", "[", "{", "<"):
                depth += 1
            elif t in (")", "]", "}", ">"):
                depth -= 1
            elif t == ">>":
                depth -= 2
            cur.append(t)
    FLOATS = ("f64", "f32")
    field_strs = []
    for f in fields:
        f = [t for t in f if not t.startswith("//")]
        if ":" in f:
            k = f.index(":")
            name = f[k - 1]
            field_strs.append(name + ": " + " ".join(f[k + 1:]))
    no_float_field = bool(field_strs) and not any(any(fl in fs.split(": ", 1)[1].split(" ") for fl in FLOATS) for fs in field_strs)
    no_float_static = True
    for fname in ("vm.rs", "core.rs", "value.rs", "object.rs"):
        toks = vm if fname == "vm.rs" else toks_of(fname)
        for j, t in enumerate(toks):
            if t.text == "static" and j + 1 < len(toks) and toks[j + 1].text not in ("str", ">", ",", ")"):
                k = j
                while k < len(toks) and toks[k].text not in ("=", ";"):
                    k += 1
                if any(x in FLOATS for x in texts(toks, j, k)):
                    no_float_static = False
    STATE_WORDS = ("static", "thread_local!", "Cell", "RefCell", "OnceCell", "OnceLock", "lazy_static!", "Mutex", "AtomicU64", "with")

    def stateless(toks, fn_name, recv):
        k = find_seq(toks, ["fn", fn_name])
        if k < 0:
            return False
        o, c = body_after(toks, k)
        b = texts(toks, o, c + 1)
        if any(w in b for w in STATE_WORDS):
            return False
        for j in range(len(b) - 3):
            if b[j] == recv and b[j + 1] == "." and b[j + 3] != "(":
                return False
        return True

    core = toks_of("core.rs")
    routes_stateless = stateless(vm, "format_string_impl", "self") and stateless(core, "string_from", "vm") and stateless(core, "print", "vm")
    # build_string_impl may read its operands, but must not write a field
    bs_ok = False
    k = find_seq(vm, ["fn", "build_string_impl"])
    if k >= 0:
        o, c = body_after(vm, k)
        b = texts(vm, o, c + 1)
        bs_ok = not any(w in b for w in STATE_WORDS)
        for j in range(len(b) - 3):
            if b[j] == "self" and b[j + 1] == "." and b[j + 3] in ("=", "+=", "-="):
                bs_ok = False
    val = toks_of("value.rs")
    disp_stateless = False
    k = find_seq(val, ["impl", "fmt", "::", "Display", "for", "Value"])
    if k >= 0:
        o, c = body_after(val, k)
        disp_stateless = not any(w in texts(val, o, c) for w in STATE_WORDS)
    d = {"vm_fields": field_strs, "vm_has_no_float_field": no_float_field, "no_float_static": no_float_static,
         "text_routes_are_stateless": routes_stateless, "build_string_writes_no_field": bs_ok, "display_is_stateless": disp_stateless}
    man["c19_number_memory"] = d
    return d


def coq_bool(b):
    return "true" if b else "false"


def coq_strlit(s):
    """a Rust string literal token -> Coq string literal (ASCII, no escapes expected)"""
    if s is None or "\\" in s or not s.startswith('"'):
        return '"?unknown?"'
    return '"%s"' % s[1:-1].replace('"', '""')


def gen_numsrc(man):
    branch, ztext, fmt = display_number(man)
    sc = scanner_number(man)
    direct, lit = parse_sites(man)
    lines = ["(* GENERATED by translator/translate_c19.py from value.rs, scanner.rs, core.rs, compiler.rs - do not edit *)",
             "From Coq Require Import String Bool List.", "Import ListNotations.", "Open Scope string_scope.", "",
             "(* value.rs, Display arm of Value::Number *)",
             "Definition display_neg_zero_branch : bool := %s." % coq_bool(branch),
             "Definition display_neg_zero_text : string := %s." % coq_strlit(ztext),
             "Definition display_default_format : string := %s." % coq_strlit(fmt),
             "",
             "(* scanner.rs, fn number / is_digit / scan_token *)"]
    for k in ("int_loop", "dot_guard", "peek_next_guard", "frac_body", "makes_number_token", "single_if_two_loops",
              "is_digit_ascii_only", "dispatch_on_digit"):
        lines.append("Definition number_%s : bool := %s." % (k, coq_bool(sc[k])))
    lines += ["",
              "(* core.rs string_to_num and compiler.rs number hand the text to str::parse::<f64> unchanged *)",
              "Definition to_num_parses_directly : bool := %s." % coq_bool(direct),
              "Definition literal_parses_directly : bool := %s." % coq_bool(lit), "",
              "(* compiler.rs interpolation / vm.rs format_string_impl / core.rs string_from: text only through Display at run time *)"]
    tr = text_routes(man)
    for k in ("interpolation_formats_every_part", "interpolation_never_edits_chunk", "format_string_uses_display",
              "string_from_uses_display", "print_uses_display", "print_has_no_numeric_code",
              "text_routes_have_no_numeric_cast", "display_impls_have_no_numeric_cast"):
        lines.append("Definition %s : bool := %s." % (k, coq_bool(tr[k])))
    nm = number_memory(man)
    lines += ["", "(* round 9: no number->text route has memory (Vm fields / statics of a float type; the route bodies touch no state) *)",
              "Definition src_vm_fields : list string := [%s]." % "; ".join('"%s"' % f.replace('"', '""') for f in nm["vm_fields"])]
    for k in ("vm_has_no_float_field", "no_float_static", "text_routes_are_stateless", "build_string_writes_no_field", "display_is_stateless"):
        lines.append("Definition %s : bool := %s." % (k, coq_bool(nm[k])))
    lines.append("")
    return "\n".join(lines) + "\n"


GENERATORS = {"NumSrc.v": gen_numsrc}
