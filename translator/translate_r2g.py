#!/usr/bin/env python3
"""Registers the Rust -> Gallina translations (rust2gallina.py) with translate.py.

One generated file per GROUP (so that a function that leaves the supported subset breaks only the checks that
own that group), plus the umbrella gen/Pure.v that re-exports them all:

  PureNum.v      utils::hash_number                                                     (C12)
  PureIntern.v   hash::FnvHasher::{default,write,finish}, string_store::find_index,
                 growth test of ObjStringStore::insert                                  (C11)
  PureIndex.v    utils::validate_integer, Value::try_as_bounded_index,
                 ObjRange::make_bounded_range, ObjStringIter::next                      (C13)
  PureIter.v     ObjVecIter::next, ObjTupleIter::next, ObjRangeIter::{new,next}         (C18)
  PureHeap.v     Heap::collect (accounting lines), collect_if_required,
                 allocate_raw (pacing decision + accounting line)                       (C16)
  PureStack.v    the cfg!(..) && cond guards of Stack::{peek,peek_mut,push,pop},
                 the clamp of Stack::truncate                                           (C10)
  PureHandlers.v ExcHandler::has_catch_block                                            (C08)

FAIL CLOSED: an unsupported construct inside a requested function yields
`Definition <name>_untranslatable : False := I.` in its group file (which then does not compile) and an entry with
status "untranslatable" in gen/manifest.json under "r2g"."""
import os
import sys

sys.path.insert(0, os.path.dirname(os.path.abspath(__file__)))
import rust2gallina as r2g  # noqa

REPO = os.environ.get("VERIF_REPO", "/repo")
SRC = os.path.join(REPO, "yarel", "src")

GROUPS = {
    "PureNum.v": [
        dict(name="hash_number", file="utils.rs", impl=None, fn="hash_number"),
    ],
    "PureIntern.v": [
        dict(name="FnvHasher_default", file="hash.rs", impl="FnvHasher", fn="default"),
        dict(name="FnvHasher_write", file="hash.rs", impl="FnvHasher", fn="write"),
        dict(name="FnvHasher_finish", file="hash.rs", impl="FnvHasher", fn="finish"),
        dict(name="find_index", file="vm.rs", impl=None, fn="find_index"),
        dict(name="insert_growth_test", file="vm.rs", impl="ObjStringStore", fn="insert", select=("if_cond", 0)),
    ],
    "PureIndex.v": [
        dict(name="validate_integer", file="utils.rs", impl=None, fn="validate_integer"),
        dict(name="try_as_bounded_index", file="value.rs", impl="Value", fn="try_as_bounded_index",
             params={"kind": "msg"}),
        dict(name="make_bounded_range", file="object.rs", impl="ObjRange", fn="make_bounded_range",
             params={"type_name": "msg"}),
        dict(name="ObjStringIter_next", file="object.rs", impl="ObjStringIter", fn="next",
             types={"ObjString": "str"}),
    ],
    "PureIter.v": [
        dict(name="ObjVecIter_next", file="object.rs", impl="ObjVecIter", fn="next", types={"Value": "V"}),
        dict(name="ObjTupleIter_next", file="object.rs", impl="ObjTupleIter", fn="next", types={"Value": "V"}),
        dict(name="ObjRangeIter_new", file="object.rs", impl="ObjRangeIter", fn="new"),
        dict(name="ObjRangeIter_next", file="object.rs", impl="ObjRangeIter", fn="next"),
    ],
    "PureHeap.v": [
        dict(name="Heap_collect", file="memory.rs", impl="Heap", fn="collect", callable=True,
             select=("stmts", {"assign": ["self.bytes_allocated", "self.collection_threshold"]})),
        dict(name="Heap_collect_if_required", file="memory.rs", impl="Heap", fn="collect_if_required"),
        dict(name="Heap_allocate_raw", file="memory.rs", impl="Heap", fn="allocate_raw",
             select=("stmts", {"assign": ["self.bytes_allocated", "self.collection_threshold"],
                               "calls": ["collect", "collect_if_required"]})),
    ],
    "PureStack.v": [
        dict(name="Stack_peek_guard", file="stack.rs", impl="Stack", fn="peek", select=("if_cond", 0),
             abstract={"self.len": ("self_len", "usize")}),
        dict(name="Stack_peek_mut_guard", file="stack.rs", impl="Stack", fn="peek_mut", select=("if_cond", 0),
             abstract={"self.len": ("self_len", "usize")}),
        dict(name="Stack_push_guard", file="stack.rs", impl="Stack", fn="push", select=("if_cond", 0),
             abstract={"self.len": ("self_len", "usize")}),
        dict(name="Stack_pop_guard", file="stack.rs", impl="Stack", fn="pop", select=("if_cond", 0),
             abstract={"self.len": ("self_len", "usize")}),
        dict(name="Stack_truncate_size", file="stack.rs", impl="Stack", fn="truncate",
             select=("let_init", "size", ("tpath", "usize", [])), abstract={"self.len": ("self_len", "usize")}),
    ],
    "PureHandlers.v": [
        dict(name="ExcHandler_has_catch_block", file="object.rs", impl="ExcHandler", fn="has_catch_block"),
    ],
}


def make_gen(fname):
    def gen(man):
        src = r2g.Source(SRC)
        sub = {}
        text = r2g.translate_group(src, GROUPS[fname], sub)
        man.setdefault("r2g", {})[fname] = sub
        bad = [n for n, e in sub.items() if e.get("status") != "translated"]
        if bad:
            man.setdefault("r2g_untranslatable", []).extend("%s:%s" % (fname, n) for n in bad)
        return text
    return gen


def gen_umbrella(man):
    return ("(* GENERATED by translator/translate_r2g.py - do not edit.  Umbrella of the Rust -> Gallina translations;\n"
            "   the definitions live in one file per group so that a function that leaves the supported subset\n"
            "   breaks only the checks that own it. *)\n"
            + "".join("From YVGen Require Export %s.\n" % f[:-2] for f in GROUPS))


GENERATORS = {f: make_gen(f) for f in GROUPS}
GENERATORS["Pure.v"] = gen_umbrella

if __name__ == "__main__":
    m = {}
    for f in GROUPS:
        print(GENERATORS[f](m))
    import json
    print(json.dumps(m, indent=1, default=str))
