#!/usr/bin/env python3
"""Registers the Rust -> Gallina translations (rust2gallina.py) with translate.py.

One generated file per GROUP (so that a function that leaves the supported subset breaks only the checks that
own that group), plus the umbrella gen/Pure.v that re-exports them all:

  PureNum.v      utils::hash_number                                                     (C12)
  PureIntern.v   hash::FnvHasher::{default,write,finish}, string_store::find_index,
                 growth test of ObjStringStore::insert                                  (C11)
  PureIndex.v    utils::validate_integer, Value::try_as_bounded_index,
                 ObjRange::make_bounded_range, ObjStringIter::next                      (C13)
  PureIter.v     ObjVecIter::next, ObjTupleIter::next, ObjRangeIter::{new,next}         (C18)
  PureHeap.v     Heap::collect (accounting lines), collect_if_required,
                 allocate_raw (pacing decision + accounting line)                       (C16)
  PureStack.v    the cfg!(..) && cond guards of Stack::{peek,peek_mut,push,pop},
                 the clamp of Stack::truncate                                           (C10)
  PureHandlers.v ExcHandler::has_catch_block                                            (C08)

FAIL CLOSED: an unsupported construct inside a requested function yields
`Definition <name>_untranslatable : False := I.` in its group file (which then does not compile) and an entry with
status "untranslatable" in gen/manifest.json under "r2g"."""
import os
import sys

sys.path.insert(0, os.path.dirname(os.path.abspath(__file__)))
import rust2gallina as r2g  # noqa

REPO = os.environ.get("VERIF_REPO", "/repo")
SRC = os.path.join(REPO, "yarel", "src")

GROUPS = {
    "PureNum.v": [
        dict(name="hash_number", file="utils.rs", impl=None, fn="hash_number"),
    ],
    "PureIntern.v": [
        dict(name="FnvHasher_default", file="hash.rs", impl="FnvHasher", fn="default"),
        dict(name="FnvHasher_write", file="hash.rs", impl="FnvHasher", fn="write"),
        dict(name="FnvHasher_finish", file="hash.rs", impl="FnvHasher", fn="finish"),
        dict(name="find_index", file="vm.rs", impl=None, fn="find_index"),
        dict(name="insert_growth_test", file="vm.rs", impl="ObjStringStore", fn="insert", select=("if_cond", 0)),
    ],
    "PureIndex.v": [
        dict(name="validate_integer", file="utils.rs", impl=None, fn="validate_integer"),
        dict(name="try_as_bounded_index", file="value.rs", impl="Value", fn="try_as_bounded_index",
             params={"kind": "msg"}),
        dict(name="make_bounded_range", file="object.rs", impl="ObjRange", fn="make_bounded_range",
             params={"type_name": "msg"}),
        dict(name="ObjStringIter_next", file="object.rs", impl="ObjStringIter", fn="next",
             types={"ObjString": "str"}),
    ],
    "PureIter.v": [
        dict(name="ObjVecIter_next", file="object.rs", impl="ObjVecIter", fn="next", types={"Value": "V"}),
        dict(name="ObjTupleIter_next", file="object.rs", impl="ObjTupleIter", fn="next", types={"Value": "V"}),
        dict(name="ObjRangeIter_new", file="object.rs", impl="ObjRangeIter", fn="new"),
        dict(name="ObjRangeIter_next", file="object.rs", impl="ObjRangeIter", fn="next"),
    ],
    "PureHeap.v": [
        dict(name="Heap_collect", file="memory.rs", impl="Heap", fn="collect", callable=True,
             select=("stmts", {"assign": ["self.bytes_allocated", "self.collection_threshold"]})),
        dict(name="Heap_collect_if_required", file="memory.rs", impl="Heap", fn="collect_if_required"),
        dict(name="Heap_allocate_raw", file="memory.rs", impl="Heap", fn="allocate_raw",
             select=("stmts", {"assign": ["self.bytes_allocated", "self.collection_threshold"],
                               "calls": ["collect", "collect_if_required"]})),
    ],
    "PureStack.v": [
        dict(name="Stack_peek_guard", file="stack.rs", impl="Stack", fn="peek", select=("if_cond", 0),
             abstract={"self.len": ("self_len", "usize")}),
        dict(name="Stack_peek_mut_guard", file="stack.rs", impl="Stack", fn="peek_mut", select=("if_cond", 0),
             abstract={"self.len": ("self_len", "usize")}),
        dict(name="Stack_push_guard", file="stack.rs", impl="Stack", fn="push", select=("if_cond", 0),
             abstract={"self.len": ("self_len", "usize")}),
        dict(name="Stack_pop_guard", file="stack.rs", impl="Stack", fn="pop", select=("if_cond", 0),
             abstract={"self.len": ("self_len", "usize")}),
        dict(name="Stack_truncate_size", file="stack.rs", impl="Stack", fn="truncate",
             select=("let_init", "size", ("tpath", "usize", [])), abstract={"self.len": ("self_len", "usize")}),
    ],
    "PureHandlers.v": [
        dict(name="ExcHandler_has_catch_block", file="object.rs", impl="ExcHandler", fn="has_catch_block"),
    ],
}

# ---- second batch (notes/R2G.md section 7): strings.  Vocabulary: YV.R2G + YV.R2GStr.
NATIVE = dict(types={"Value": "xvalue"}, stack="vm", display=True)
GROUPS2 = {
    "PureStr.v": [
        dict(name="check_num_args", file="core.rs", impl=None, fn="check_num_args", display=True),
        dict(name="validate_integer_x", file="utils.rs", impl=None, fn="validate_integer", **NATIVE),
        dict(name="try_as_bounded_index_x", file="value.rs", impl="Value", fn="try_as_bounded_index",
             params={"kind": "msg"}, **NATIVE),
        dict(name="ObjString_validate_char_boundary", file="object.rs", impl="ObjString",
             fn="validate_char_boundary", params={"desc": "msg"}),
        dict(name="string_len", file="core.rs", impl=None, fn="string_len", **NATIVE),
        dict(name="string_is_alpha", file="core.rs", impl=None, fn="string_is_alpha", **NATIVE),
        dict(name="string_is_digit", file="core.rs", impl=None, fn="string_is_digit", **NATIVE),
        dict(name="string_is_hexdigit", file="core.rs", impl=None, fn="string_is_hexdigit", **NATIVE),
        dict(name="string_count_chars", file="core.rs", impl=None, fn="string_count_chars", **NATIVE),
        dict(name="string_char_byte_index", file="core.rs", impl=None, fn="string_char_byte_index", **NATIVE),
        dict(name="string_find", file="core.rs", impl=None, fn="string_find", **NATIVE),
        dict(name="string_replace", file="core.rs", impl=None, fn="string_replace", **NATIVE),
        dict(name="string_starts_with", file="core.rs", impl=None, fn="string_starts_with", **NATIVE),
        dict(name="string_ends_with", file="core.rs", impl=None, fn="string_ends_with", **NATIVE),
        dict(name="make_bounded_range_x", file="object.rs", impl="ObjRange", fn="make_bounded_range",
             params={"type_name": "msg"}),
        dict(name="Vm_string_get_item", file="vm.rs", impl="Vm", fn="string_get_item",
             types={"Value": "xvalue"}, stack="self", display=True),
    ],
    "PureScan.v": [
        dict(name="is_alpha", file="scanner.rs", impl=None, fn="is_alpha"),
        dict(name="is_digit", file="scanner.rs", impl=None, fn="is_digit"),
        dict(name="Scanner_is_at_end", file="scanner.rs", impl="Scanner", fn="is_at_end"),
        dict(name="Scanner_get_next_char_boundary", file="scanner.rs", impl="Scanner", fn="get_next_char_boundary"),
        dict(name="Scanner_peek", file="scanner.rs", impl="Scanner", fn="peek"),
        dict(name="Scanner_peek_next", file="scanner.rs", impl="Scanner", fn="peek_next"),
        dict(name="Scanner_advance", file="scanner.rs", impl="Scanner", fn="advance"),
        dict(name="Scanner_match_char", file="scanner.rs", impl="Scanner", fn="match_char"),
        dict(name="Scanner_skip_whitespace", file="scanner.rs", impl="Scanner", fn="skip_whitespace"),
        dict(name="Scanner_make_token", file="scanner.rs", impl="Scanner", fn="make_token"),
        dict(name="Scanner_number", file="scanner.rs", impl="Scanner", fn="number"),
        dict(name="Scanner_check_keyword", file="scanner.rs", impl="Scanner", fn="check_keyword"),
        dict(name="Scanner_identifier_type", file="scanner.rs", impl="Scanner", fn="identifier_type"),
        dict(name="Scanner_identifier", file="scanner.rs", impl="Scanner", fn="identifier"),
        dict(name="Scanner_binary_token", file="scanner.rs", impl="Scanner", fn="binary_token"),
        dict(name="Scanner_error_token", file="scanner.rs", impl="Scanner", fn="error_token"),
    ],
}
GROUPS2["PureComp.v"] = [
    dict(name="Compiler_add_local", file="compiler.rs", impl="Compiler", fn="add_local"),
    dict(name="Compiler_resolve_local", file="compiler.rs", impl="Compiler", fn="resolve_local"),
    dict(name="Compiler_add_upvalue", file="compiler.rs", impl="Compiler", fn="add_upvalue"),
]
GROUPS2["PureFiber.v"] = [
    dict(name="ObjFiber_push_exc_handler", file="object.rs", impl="ObjFiber", fn="push_exc_handler",
         abstract={"self.stack.len": ("self_stack_len", "usize")}),
    dict(name="ObjFiber_pop_exc_handler", file="object.rs", impl="ObjFiber", fn="pop_exc_handler"),
]
GROUPS.update(GROUPS2)


def make_gen(fname):
    def gen(man):
        src = r2g.Source(SRC)
        sub = {}
        text = r2g.translate_group(src, GROUPS[fname], sub, ext=fname in GROUPS2)
        man.setdefault("r2g", {})[fname] = sub
        bad = [n for n, e in sub.items() if e.get("status") != "translated"]
        if bad:
            man.setdefault("r2g_untranslatable", []).extend("%s:%s" % (fname, n) for n in bad)
        return text
    return gen


def gen_umbrella(man):
    return ("(* GENERATED by translator/translate_r2g.py - do not edit.  Umbrella of the Rust -> Gallina translations;\n"
            "   the definitions live in one file per group so that a function that leaves the supported subset\n"
            "   breaks only the checks that own it. *)\n"
            + "".join("From YVGen Require Export %s.\n" % f[:-2] for f in GROUPS if f not in GROUPS2))


GENERATORS = {f: make_gen(f) for f in GROUPS}
GENERATORS["Pure.v"] = gen_umbrella

if __name__ == "__main__":
    m = {}
    for f in GROUPS:
        print(GENERATORS[f](m))
    import json
    print(json.dumps(m, indent=1, default=str))
